package main

import (
	"fmt"
	"go/ast"
	"go/token"
	"go/types"
	"sort"
	"strings"
)

// No blocking at the gate while holding a lock the other side needs.
//
// A rebalance that sits in waitAndAddRebalance* waits for AllowRebalance, i.e.
// for the application's poll loop.  The poll loop may legally poll again before
// AllowRebalance (a poller that finds pollers > 0 is admitted past the pending
// rebalance) and PollRecords takes consumer.mu, sourcesReadyMu, the group
// mutex ... after passing the gate.  Holding any of those while waiting at the
// rebalance side of the gate is a circular wait.  Symmetrically a poll that
// waits at the gate (waitAndAddPoller, for the running rebalance to finish)
// must not hold a lock that the rebalance section takes.
//
// The rule is a MAY-lockset analysis (union at joins; `defer X.Unlock()` keeps
// X held to the exit; literal bodies inherit the lockset of their call sites,
// `go` bodies start empty), locks are identified by the mutex FIELD (so
// c.mu, g.c.mu and cl.consumer.mu are the same lock), and the check is
// applied to every synchronous call chain that ends in a gate-wait function.

type c31lockID = types.Object

type c31lockSet map[c31lockID]bool

func (s c31lockSet) clone() c31lockSet {
	o := c31lockSet{}
	for k := range s {
		o[k] = true
	}
	return o
}

func (s c31lockSet) addAll(o c31lockSet) bool {
	ch := false
	for k := range o {
		if !s[k] {
			s[k] = true
			ch = true
		}
	}
	return ch
}

func c31lockName(o c31lockID) string {
	if v, ok := o.(*types.Var); ok && v.IsField() {
		// find the owning struct name through the package scope
		if v.Pkg() != nil {
			sc := v.Pkg().Scope()
			for _, n := range sc.Names() {
				if tn, ok := sc.Lookup(n).(*types.TypeName); ok {
					if st, ok := tn.Type().Underlying().(*types.Struct); ok {
						for i := 0; i < st.NumFields(); i++ {
							if st.Field(i) == v {
								return tn.Name() + "." + v.Name()
							}
						}
					}
				}
			}
		}
	}
	return o.Name()
}

func (s c31lockSet) String() string {
	var ks []string
	for k := range s {
		ks = append(ks, c31lockName(k))
	}
	sort.Strings(ks)
	return "{" + strings.Join(ks, ", ") + "}"
}

// c31lockOpOf classifies a call as Lock/RLock/Unlock/RUnlock of an identified mutex.
func c31lockOpOf(f *Func, call *ast.CallExpr) (id c31lockID, acquire bool, ok bool) {
	_, op, isOp := lockOp(f, call)
	if !isOp {
		return nil, false, false
	}
	sel := unparen(call.Fun).(*ast.SelectorExpr)
	x := unparen(sel.X)
	if u, isU := x.(*ast.UnaryExpr); isU && u.Op == token.AND {
		x = unparen(u.X)
	}
	if fv := fieldOfSel(f.Info(), x); fv != nil {
		id = fv.Origin()
	} else if idn, isI := x.(*ast.Ident); isI {
		id = f.Info().Uses[idn]
	}
	if id == nil {
		return nil, false, false
	}
	return id, op == "Lock" || op == "RLock", true
}

type c31mayEnv struct {
	f       *Func
	memo    map[*ast.BlockStmt][]c31lockSet
	busy    map[*ast.BlockStmt]bool
	parents map[ast.Node]ast.Node
}

func newC31mayEnv(f *Func) *c31mayEnv {
	return &c31mayEnv{f: f, memo: map[*ast.BlockStmt][]c31lockSet{}, busy: map[*ast.BlockStmt]bool{}, parents: parentMap(f.Decl.Body)}
}

func (e *c31mayEnv) apply(n ast.Node, st c31lockSet) {
	switch n.(type) {
	case *ast.DeferStmt, *ast.GoStmt:
		return
	}
	ast.Inspect(n, func(x ast.Node) bool {
		if x == nil {
			return false
		}
		if _, ok := x.(*ast.FuncLit); ok {
			return false
		}
		if call, ok := x.(*ast.CallExpr); ok {
			if id, acq, ok := c31lockOpOf(e.f, call); ok {
				if acq {
					st[id] = true
				} else {
					delete(st, id)
				}
			}
		}
		return true
	})
}

func (e *c31mayEnv) graph(lit *ast.FuncLit) *Graph {
	if lit == nil {
		return e.f.Graph()
	}
	return e.f.LitGraph(lit)
}

func (e *c31mayEnv) compute(body *ast.BlockStmt, lit *ast.FuncLit) []c31lockSet {
	if in, ok := e.memo[body]; ok {
		return in
	}
	g := e.graph(lit)
	n := len(g.C.Blocks)
	in := make([]c31lockSet, n)
	if e.busy[body] || n == 0 {
		return in
	}
	e.busy[body] = true
	entry := c31lockSet{}
	if lit != nil {
		entry = e.litEntry(lit)
	}
	in[0] = entry
	for changed, iter := true, 0; changed && iter < 200; iter++ {
		changed = false
		for _, b := range g.C.Blocks {
			bi := int(b.Index)
			if !g.live[bi] || in[bi] == nil {
				continue
			}
			st := in[bi].clone()
			for _, nd := range b.Nodes {
				e.apply(nd, st)
			}
			for _, s := range g.succs[bi] {
				if in[s] == nil {
					in[s] = st.clone()
					changed = true
				} else if in[s].addAll(st) {
					changed = true
				}
			}
		}
	}
	e.busy[body] = false
	e.memo[body] = in
	return in
}

func (e *c31mayEnv) bodyOf(n ast.Node) (*ast.BlockStmt, *ast.FuncLit) {
	lit := innermostLit(e.f, n)
	if lit == nil {
		return e.f.Decl.Body, nil
	}
	return lit.Body, lit
}

// heldAt is the may-lockset just before the CFG node containing n executes.
func (e *c31mayEnv) heldAt(n ast.Node) (c31lockSet, bool) {
	body, lit := e.bodyOf(n)
	in := e.compute(body, lit)
	g := e.graph(lit)
	l, ok := g.LocOf(n)
	if !ok || l.B >= len(in) {
		return nil, false
	}
	st := c31lockSet{}
	if in[l.B] != nil {
		st = in[l.B].clone()
	}
	blk := g.C.Blocks[l.B]
	for i := 0; i < l.I && i < len(blk.Nodes); i++ {
		e.apply(blk.Nodes[i], st)
	}
	return st, true
}

// exitLocks is the union of the may-locksets at the exits of a body (where deferred calls run).
func (e *c31mayEnv) exitLocks(body *ast.BlockStmt, lit *ast.FuncLit) c31lockSet {
	in := e.compute(body, lit)
	g := e.graph(lit)
	res := c31lockSet{}
	for _, b := range g.C.Blocks {
		bi := int(b.Index)
		if _, isExit := g.exitOf(bi); !isExit || in[bi] == nil {
			continue
		}
		st := in[bi].clone()
		for _, nd := range b.Nodes {
			e.apply(nd, st)
		}
		res.addAll(st)
	}
	return res
}

// litEntry: the may-lockset on entry of a function literal.
func (e *c31mayEnv) litEntry(lit *ast.FuncLit) c31lockSet {
	par := e.parents[lit]
	if call, ok := par.(*ast.CallExpr); ok {
		gp := e.parents[call]
		if call.Fun == ast.Expr(lit) {
			switch gp.(type) {
			case *ast.GoStmt:
				return c31lockSet{}
			case *ast.DeferStmt:
				b, l := e.bodyOf(call)
				return e.exitLocks(b, l)
			}
		} else if _, isGo := gp.(*ast.GoStmt); isGo {
			// go f(func(){...}): the literal may run on the new goroutine or synchronously inside f; f starts without locks
			return c31lockSet{}
		} else if _, isDefer := gp.(*ast.DeferStmt); isDefer {
			b, l := e.bodyOf(call)
			return e.exitLocks(b, l)
		}
		// called in place or passed to a callee that may run it synchronously
		if st, ok := e.heldAt(call); ok {
			return st
		}
		return c31lockSet{}
	}
	// bound to a variable: union over the uses of the variable that are calls; any other use (escape) -> union over the whole enclosing body
	if calls := closureCallSites(e.f, lit); len(calls) > 0 {
		res := c31lockSet{}
		for _, call := range calls {
			switch e.parents[call].(type) {
			case *ast.GoStmt:
				continue
			case *ast.DeferStmt:
				b, l := e.bodyOf(call)
				res.addAll(e.exitLocks(b, l))
				continue
			}
			if st, ok := e.heldAt(call); ok {
				res.addAll(st)
			}
		}
		return res
	}
	// escaping literal (stored, returned, sent): assume it may run wherever the enclosing body holds locks
	b, l := e.bodyOf(lit)
	in := e.compute(b, l)
	res := c31lockSet{}
	for _, s := range in {
		if s != nil {
			res.addAll(s)
		}
	}
	return res
}

// c31async: the call starts a goroutine (`go f()`) -- the callee does not inherit locks and the caller does not block.
func (e *c31mayEnv) goCall(call *ast.CallExpr) bool {
	_, isGo := e.parents[call].(*ast.GoStmt)
	return isGo
}

// inGoLiteral: the node runs inside a literal launched with `go func(){...}()` (at any nesting level).
func (e *c31mayEnv) inGoLiteral(n ast.Node) bool {
	for p := e.parents[n]; p != nil; p = e.parents[p] {
		if lit, ok := p.(*ast.FuncLit); ok {
			if call, ok := e.parents[lit].(*ast.CallExpr); ok && call.Fun == ast.Expr(lit) {
				if _, isGo := e.parents[call].(*ast.GoStmt); isGo {
					return true
				}
			}
		}
	}
	return false
}

type c31callSite struct {
	f      *Func
	call   *ast.CallExpr
	callee *Func
}

// gateLockOrder is the rule entry point.
func (g *c31gate) gateLockOrder() {
	c, m := g.c, g.m
	funcs := m.FuncsIn("kgo")
	byObj := map[types.Object]*Func{}
	for _, f := range funcs {
		if f.Obj != nil {
			byObj[f.Obj.Origin()] = f
		}
	}
	envs := map[*Func]*c31mayEnv{}
	envOf := func(f *Func) *c31mayEnv {
		if e, ok := envs[f]; ok {
			return e
		}
		e := newC31mayEnv(f)
		envs[f] = e
		return e
	}
	// static call sites inside kgo
	sites := map[*Func][]c31callSite{} // by callee
	out := map[*Func][]c31callSite{}   // by caller
	for _, f := range funcs {
		ast.Inspect(f.Decl.Body, func(x ast.Node) bool {
			call, ok := x.(*ast.CallExpr)
			if !ok {
				return true
			}
			if fn, ok := calleeObj(f.Info(), call).(*types.Func); ok {
				if callee := byObj[fn.Origin()]; callee != nil {
					s := c31callSite{f: f, call: call, callee: callee}
					sites[callee] = append(sites[callee], s)
					out[f] = append(out[f], s)
				}
			}
			return true
		})
	}
	// locks a function may acquire itself or through synchronous callees
	acq := map[*Func]c31lockSet{}
	var acquires func(f *Func, depth int, skip func(call *ast.CallExpr) bool) c31lockSet
	acquires = func(f *Func, depth int, skip func(call *ast.CallExpr) bool) c31lockSet {
		if skip == nil {
			if s, ok := acq[f]; ok {
				return s
			}
			acq[f] = c31lockSet{} // recursion guard
		}
		res := c31lockSet{}
		e := envOf(f)
		ast.Inspect(f.Decl.Body, func(x ast.Node) bool {
			call, ok := x.(*ast.CallExpr)
			if !ok {
				return true
			}
			if skip != nil && skip(call) {
				return true
			}
			if id, a, ok := c31lockOpOf(f, call); ok && a && !e.inGoLiteral(call) {
				res[id] = true
			}
			return true
		})
		if depth < 8 {
			for _, s := range out[f] {
				if e.goCall(s.call) || e.inGoLiteral(s.call) || (skip != nil && skip(s.call)) {
					continue
				}
				res.addAll(acquires(s.callee, depth+1, nil))
			}
		}
		if skip == nil {
			acq[f] = res
		}
		return res
	}

	poll := m.Func("kgo.Client.PollRecords")
	if poll == nil {
		return
	}
	// (a) locks the poll loop needs: everything PollRecords acquires on its non-share path
	share := m.Field("kgo", "consumer", "s")
	pg := poll.Graph()
	pollLocks := acquires(poll, 0, func(call *ast.CallExpr) bool {
		if innermostLit(poll, call) != nil {
			return false
		}
		l, ok := pg.LocOf(call)
		if !ok {
			return false
		}
		return share != nil && factMatches(pg.FactsAt(l), func(fc Fact) bool {
			be, ok := unparen(fc.Cond).(*ast.BinaryExpr)
			return ok && fc.Tag == nil && be.Op == token.NEQ && fc.Val && sameField(fieldOfSel(poll.Info(), be.X), share) && exprStr(be.Y) == "nil"
		})
	})
	delete(pollLocks, g.mu.Origin())
	for _, want := range []string{"mu", "sourcesReadyMu"} {
		fv := m.Field("kgo", "consumer", want)
		c.Check(fv != nil && pollLocks[fv.Origin()], "gate-wait-holds-no-poll-lock", "kgo.Client.PollRecords#acquires consumer."+want, poll.Pos(), m, "derived from PollRecords",
			"PollRecords no longer acquires consumer."+want+": the set of locks a poll needs after passing the gate is derived from it and must be re-confirmed")
	}
	c.Set("gate_poll_locks", pollLocks.String())
	c31debug("poll locks: %s", pollLocks)

	// (b) locks the rebalance sections need: everything acquired between a waitAndAddRebalance* call and its unaddRebalance
	rebWait := map[*Func]bool{}
	for _, k := range []string{"kgo.consumer.waitAndAddRebalance", "kgo.consumer.waitAndAddRebalanceSilent", "kgo.consumer.waitAndAddRebalanceMaybeSignal"} {
		if f := m.Func(k); f != nil {
			rebWait[f] = true
		}
	}
	pollWait := map[*Func]bool{g.fns["kgo.consumer.waitAndAddPoller"]: true}
	unadd := g.fns["kgo.consumer.unaddRebalance"]
	rebLocks := c31lockSet{}
	for w := range rebWait {
		for _, s := range sites[w] {
			if rebWait[s.f] {
				continue
			}
			// the section: nodes of the same body reachable from the add without passing a (non-deferred) unaddRebalance
			gr := s.f.GraphFor(s.call)
			l, ok := gr.LocOf(s.call)
			if !ok {
				continue
			}
			lit := innermostLit(s.f, s.call)
			e := envOf(s.f)
			inSection := map[ast.Node]bool{}
			seen := map[int]bool{}
			var walk func(b, i int)
			walk = func(b, i int) {
				blk := gr.C.Blocks[b]
				for ; i < len(blk.Nodes); i++ {
					n := blk.Nodes[i]
					if _, isDefer := n.(*ast.DeferStmt); !isDefer && containsNode(n, false, func(y ast.Node) bool {
						cl, ok := y.(*ast.CallExpr)
						return ok && isCallTo(s.f.Info(), cl, unadd.Obj)
					}) {
						return
					}
					inSection[n] = true
				}
				for _, sc := range gr.succs[b] {
					if !seen[sc] {
						seen[sc] = true
						walk(sc, 0)
					}
				}
			}
			walk(l.B, l.I+1)
			for n := range inSection {
				ast.Inspect(n, func(y ast.Node) bool {
					if fl, ok := y.(*ast.FuncLit); ok && fl != lit {
						// literals defined inside the section: deferred / called ones run in it; go-launched ones do not
						if cl, ok := e.parents[fl].(*ast.CallExpr); ok && cl.Fun == ast.Expr(fl) {
							if _, isGo := e.parents[cl].(*ast.GoStmt); isGo {
								return false
							}
						}
					}
					if _, isGo := y.(*ast.GoStmt); isGo {
						return false
					}
					cl, ok := y.(*ast.CallExpr)
					if !ok {
						return true
					}
					if id, a, ok := c31lockOpOf(s.f, cl); ok && a {
						rebLocks[id] = true
					}
					if fn, ok := calleeObj(s.f.Info(), cl).(*types.Func); ok {
						if callee := byObj[fn.Origin()]; callee != nil && !rebWait[callee] {
							rebLocks.addAll(acquires(callee, 1, nil))
						}
					}
					return true
				})
			}
		}
	}
	delete(rebLocks, g.mu.Origin())
	if fv := m.Field("kgo", "consumer", "mu"); fv != nil {
		c.Check(rebLocks[fv.Origin()], "gate-wait-holds-no-rebalance-lock", "rebalance sections#acquire consumer.mu", unadd.Pos(), m, "derived from the add..unadd sections",
			"no rebalance section acquires consumer.mu any more: the set of locks a rebalance needs while polls wait at the gate must be re-confirmed")
	}
	c.Set("gate_rebalance_locks", rebLocks.String())
	c31debug("rebalance-section locks: %s", rebLocks)

	// (c) every synchronous call chain ending in a gate wait
	check := func(rule string, start map[*Func]bool, forbidden c31lockSet, why string) int {
		blocking := map[*Func]string{} // function -> the gate function it (transitively) waits in
		var work []*Func
		for f := range start {
			blocking[f] = c31leaf(f.Key)
			work = append(work, f)
		}
		sort.Slice(work, func(i, j int) bool { return work[i].Key < work[j].Key })
		n := 0
		seenCons := map[string]int{}
		for len(work) > 0 {
			callee := work[0]
			work = work[1:]
			ss := sites[callee]
			sort.Slice(ss, func(i, j int) bool { return ss[i].call.Pos() < ss[j].call.Pos() })
			for _, s := range ss {
				if start[s.f] && start[callee] {
					continue // the wrappers forwarding to waitAndAddRebalanceMaybeSignal
				}
				e := envOf(s.f)
				if e.goCall(s.call) {
					continue // `go g.revoke(...)`: new goroutine, no locks inherited, caller does not block
				}
				n++
				c.Touch(s.f)
				cons := fmt.Sprintf("%s: %s", s.f.Key, exprStr(s.call.Fun))
				seenCons[cons]++
				if seenCons[cons] > 1 {
					cons += fmt.Sprintf("#%d", seenCons[cons])
				}
				held, ok := e.heldAt(s.call)
				if !ok {
					c.Undecided(rule, cons, s.call.Pos(), m, "call not located in a CFG")
					continue
				}
				bad := c31lockSet{}
				for id := range held {
					if forbidden[id] {
						bad[id] = true
					}
				}
				via := ""
				if !start[callee] {
					via = " (which waits in " + blocking[callee] + ")"
				}
				c31debug("%s %s at %s held=%s", rule, cons, m.Position(s.call.Pos()), held)
				c.Check(len(bad) == 0, rule, cons, s.call.Pos(), m, "may-lockset "+held.String()+" shares no lock with the other side",
					fmt.Sprintf("%s%s is called while %s may be held: %s", c31leaf(callee.Key), via, bad.String(), why))
				// the caller itself now blocks at the gate, unless the call runs on a goroutine the caller starts
				if !e.inGoLiteral(s.call) {
					if _, done := blocking[s.f]; !done {
						blocking[s.f] = blocking[callee]
						work = append(work, s.f)
					}
				}
			}
		}
		return n
	}
	nr := check("gate-wait-holds-no-poll-lock", rebWait, pollLocks,
		"the rebalance waits at the gate for AllowRebalance while holding a lock that PollRecords takes after passing the gate; a poll loop that polls again before AllowRebalance (admitted because a poller is outstanding) blocks on that lock and never reaches AllowRebalance: circular wait")
	c.Floor("gate-wait-holds-no-poll-lock", nr, 6)
	np := check("gate-wait-holds-no-rebalance-lock", pollWait, rebLocks,
		"the poll waits at the gate for the running rebalance to finish while holding a lock that the rebalance section (assignPartitions, callbacks' bookkeeping) takes before unaddRebalance: circular wait")
	c.Floor("gate-wait-holds-no-rebalance-lock", np, 4)
}
