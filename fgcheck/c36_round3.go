package main

import (
	"go/ast"
	"go/token"
	"go/types"
)

// Round-3 rules of C36 (registration table order, nil-safe instantiation in
// DecodeNew, nil-guarded codec calls).

// c36site is an AST node of a function together with the body it executes in:
// the function's own body (lit == nil) or a directly deferred function
// literal (lit != nil, deferStmt = its `defer func(){...}()` statement).
type c36site struct {
	node      ast.Node
	lit       *ast.FuncLit
	deferStmt *ast.DeferStmt
	decided   bool // false: inside a literal that is not a directly deferred closure
}

func c36siteOf(f *Func, n ast.Node) c36site {
	lit := innermostLit(f, n)
	if lit == nil {
		return c36site{node: n, decided: true}
	}
	// the literal must be `defer func(){...}()` written directly in the function body
	var ds *ast.DeferStmt
	ast.Inspect(f.Decl.Body, func(x ast.Node) bool {
		if d, ok := x.(*ast.DeferStmt); ok && unparen(d.Call.Fun) == ast.Expr(lit) {
			ds = d
		}
		return ds == nil
	})
	if ds == nil || innermostLit(f, ds) != nil {
		return c36site{node: n, lit: lit}
	}
	return c36site{node: n, lit: lit, deferStmt: ds, decided: true}
}

// c36reach: can location b execute after location a (strictly later, loops included)?
func c36reach(g *Graph, a, b Loc) bool {
	if a.B == b.B && a.I < b.I {
		return true
	}
	seen := make([]bool, len(g.C.Blocks))
	stack := []int{}
	for _, s := range g.succs[a.B] {
		if !seen[s] {
			seen[s] = true
			stack = append(stack, s)
		}
	}
	for len(stack) > 0 {
		u := stack[len(stack)-1]
		stack = stack[:len(stack)-1]
		if u == b.B {
			return true
		}
		for _, v := range g.succs[u] {
			if !seen[v] {
				seen[v] = true
				stack = append(stack, v)
			}
		}
	}
	return false
}

// c36mayRunAfter reports whether b can execute after a within one call of f
// (defer-aware: a directly deferred closure runs at function exit, deferred
// closures run in reverse registration order).  decided=false when one of the
// nodes sits in a closure whose execution time is not known.
func c36mayRunAfter(f *Func, a, b ast.Node) (after, decided bool) {
	sa, sb := c36siteOf(f, a), c36siteOf(f, b)
	if !sa.decided || !sb.decided {
		return false, false
	}
	switch {
	case sa.lit == nil && sb.lit == nil:
		g := f.Graph()
		la, oka := g.LocOf(a)
		lb, okb := g.LocOf(b)
		if !oka || !okb {
			return false, false
		}
		return c36reach(g, la, lb), true
	case sa.lit == nil && sb.lit != nil:
		// b runs at exit, after everything of the body
		return true, true
	case sa.lit != nil && sb.lit == nil:
		// a runs at exit; everything of the body ran before
		return false, true
	case sa.lit == sb.lit:
		g := f.LitGraph(sa.lit)
		la, oka := g.LocOf(a)
		lb, okb := g.LocOf(b)
		if !oka || !okb {
			return false, false
		}
		return c36reach(g, la, lb), true
	default:
		// two deferred closures: b's closure runs after a's when it was registered before it
		g := f.Graph()
		la, oka := g.LocOf(sa.deferStmt)
		lb, okb := g.LocOf(sb.deferStmt)
		if !oka || !okb {
			return false, false
		}
		return c36reach(g, lb, la), true
	}
}

// c36isTserdeField: fld is a field of sr.tserde.
func c36isTserdeField(m *Module, fld *types.Var) bool {
	obj := m.Object("sr", "tserde")
	if obj == nil {
		return false
	}
	st, ok := obj.Type().Underlying().(*types.Struct)
	if !ok {
		return false
	}
	for i := 0; i < st.NumFields(); i++ {
		if sameField(st.Field(i), fld) {
			return true
		}
	}
	return false
}

func c36isReflectType(t types.Type) bool {
	n, ok := t.(*types.Named)
	return ok && n.Obj().Pkg() != nil && n.Obj().Pkg().Path() == "reflect" && n.Obj().Name() == "Type"
}

// c36identObj resolves an identifier expression to its variable.
func c36identObj(info *types.Info, e ast.Expr) *types.Var {
	id, ok := unparen(e).(*ast.Ident)
	if !ok {
		return nil
	}
	if v, ok := info.Uses[id].(*types.Var); ok {
		return v
	}
	if v, ok := info.Defs[id].(*types.Var); ok {
		return v
	}
	return nil
}

// c36isReflectCall reports whether call is reflect.<name>.
func c36isReflectCall(info *types.Info, call *ast.CallExpr, name string) bool {
	fn, ok := calleeObj(info, call).(*types.Func)
	return ok && fn.Pkg() != nil && fn.Pkg().Path() == "reflect" && fn.Name() == name && fn.Type().(*types.Signature).Recv() == nil
}

// c36defsOf lists the right-hand sides assigned to variable v anywhere in f
// (deep), and whether v is written in a way that has no single right-hand side
// (address taken, multi-value assignment, range variable, inc/dec).
func c36defsOf(f *Func, v *types.Var) (rhs []ast.Expr, nodes []ast.Node, opaque bool) {
	info := f.Info()
	ast.Inspect(f.Decl.Body, func(x ast.Node) bool {
		switch s := x.(type) {
		case *ast.AssignStmt:
			for i, l := range s.Lhs {
				if c36identObj(info, l) != v {
					continue
				}
				if len(s.Lhs) == len(s.Rhs) && (s.Tok == token.ASSIGN || s.Tok == token.DEFINE) {
					rhs = append(rhs, s.Rhs[i])
				} else {
					opaque = true
				}
				nodes = append(nodes, s)
			}
		case *ast.ValueSpec:
			for i, n := range s.Names {
				if info.Defs[n] == types.Object(v) {
					if i < len(s.Values) {
						rhs = append(rhs, s.Values[i])
					}
					nodes = append(nodes, s)
				}
			}
		case *ast.UnaryExpr:
			if s.Op == token.AND && c36identObj(info, s.X) == v {
				opaque = true
				nodes = append(nodes, s)
			}
		case *ast.IncDecStmt:
			if c36identObj(info, s.X) == v {
				opaque = true
				nodes = append(nodes, s)
			}
		case *ast.RangeStmt:
			for _, l := range []ast.Expr{s.Key, s.Value} {
				if l != nil && c36identObj(info, l) == v {
					opaque = true
					nodes = append(nodes, s)
				}
			}
		}
		return true
	})
	return
}

// c36nonNilFact: is `e != nil` a dominating branch fact at loc?  Besides the
// direct forms (`e != nil` taken, `e == nil` not taken) one propositional step
// is done: `!(A && B)` together with A gives !B (Serde.AppendEncode's
// "neither encoder registered" rejection followed by `appendEncode != nil`).
func c36nonNilFact(facts []Fact, e ast.Expr) bool {
	want := nosp(exprStr(unparen(e)))
	// isNilTest: cond is `want == nil` (eq=true) or `want != nil` (eq=false)
	isNilTest := func(cond ast.Expr) (eq, ok bool) {
		be, okb := unparen(cond).(*ast.BinaryExpr)
		if !okb || (be.Op != token.EQL && be.Op != token.NEQ) {
			return false, false
		}
		x, y := nosp(exprStr(unparen(be.X))), nosp(exprStr(unparen(be.Y)))
		if (x == want && y == "nil") || (y == want && x == "nil") {
			return be.Op == token.EQL, true
		}
		return false, false
	}
	for _, ft := range facts {
		if ft.Tag != nil {
			continue
		}
		if eq, ok := isNilTest(ft.Cond); ok && eq != ft.Val {
			return true
		}
	}
	// holds: is cond known true from the atomic facts?
	holds := func(cond ast.Expr) bool {
		cs := nosp(exprStr(unparen(cond)))
		for _, ft := range facts {
			if ft.Tag != nil {
				continue
			}
			fs := nosp(exprStr(unparen(ft.Cond)))
			if fs == cs && ft.Val {
				return true
			}
			// `X != nil` not taken  <=>  `X == nil` holds (and vice versa)
			if !ft.Val {
				if be, ok := unparen(ft.Cond).(*ast.BinaryExpr); ok && (be.Op == token.EQL || be.Op == token.NEQ) {
					op := "=="
					if be.Op == token.EQL {
						op = "!="
					}
					if nosp(exprStr(unparen(be.X)))+op+nosp(exprStr(unparen(be.Y))) == cs {
						return true
					}
				}
			}
		}
		return false
	}
	for _, ft := range facts {
		if ft.Tag != nil || ft.Val {
			continue
		}
		be, ok := unparen(ft.Cond).(*ast.BinaryExpr)
		if !ok || be.Op != token.LAND {
			continue
		}
		for _, pair := range [][2]ast.Expr{{be.X, be.Y}, {be.Y, be.X}} {
			if eq, ok := isNilTest(pair[0]); ok && eq && holds(pair[1]) {
				return true // !(want == nil && B) and B  =>  want != nil
			}
		}
	}
	return false
}

// c36rootStable: the variable at the root of expression e (t in t.typeof) is
// defined exactly once in f and never has its address taken, so that a branch
// fact about e still holds where e is used.
func c36rootStable(f *Func, e ast.Expr) bool {
	info := f.Info()
	x := unparen(e)
	for {
		switch s := x.(type) {
		case *ast.SelectorExpr:
			x = unparen(s.X)
			continue
		case *ast.StarExpr:
			x = unparen(s.X)
			continue
		}
		break
	}
	v := c36identObj(info, x)
	if v == nil {
		return false
	}
	_, nodes, opaque := c36defsOf(f, v)
	if len(nodes) == 0 {
		return true // parameter / receiver never written
	}
	if len(nodes) == 1 {
		// a single multi-value definition `b, t, err := s.decodeFind(b)` is fine
		if as, ok := nodes[0].(*ast.AssignStmt); ok && as.Tok == token.DEFINE {
			return true
		}
		return !opaque
	}
	return false
}

// c36fieldRef resolves e to the struct field it denotes: a selector `t.typeof`
// directly, or a local variable whose only definition is such a selector
// (`gen, typ := t.gen, t.typeof`).
func c36fieldRef(f *Func, e ast.Expr) *types.Var {
	info := f.Info()
	for depth := 0; depth < 4; depth++ {
		if fld := fieldOfSel(info, e); fld != nil {
			return fld
		}
		v := c36identObj(info, e)
		if v == nil || v.IsField() {
			return nil
		}
		rhs, nodes, opaque := c36defsOf(f, v)
		if opaque || len(rhs) != 1 || len(nodes) != 1 {
			return nil
		}
		e = rhs[0]
	}
	return nil
}

func c36round3(c *Ctx, m *Module) {
	c36registerOrder(c, m)
	c36reflectGuard(c, m)
	c36codecCallGuard(c, m)
	c36decodeNew(c, m)
}

// (4) Serde.Register: the type table is a copy of the old one in which the
// type previously registered at the node is removed BEFORE the new type is
// inserted (re-registering the same type at the same node must keep it), and
// the inserted value is the final tserde.
func c36registerOrder(c *Ctx, m *Module) {
	rule := "sr-register-table-order"
	f := c.NeedFunc(m, "sr.Serde.Register")
	if f == nil {
		return
	}
	info := f.Info()
	isTypeMap := func(e ast.Expr) *types.Var {
		v := c36identObj(info, e)
		if v == nil {
			return nil
		}
		mt, ok := v.Type().Underlying().(*types.Map)
		if !ok || !c36isReflectType(mt.Key()) {
			return nil
		}
		return v
	}
	// key derives from reflect.TypeOf(...)?
	fromTypeOf := func(e ast.Expr) bool {
		e = unparen(e)
		if call, ok := e.(*ast.CallExpr); ok {
			return c36isReflectCall(info, call, "TypeOf")
		}
		v := c36identObj(info, e)
		if v == nil {
			return false
		}
		rhs, _, opaque := c36defsOf(f, v)
		if opaque || len(rhs) == 0 {
			return false
		}
		for _, r := range rhs {
			call, ok := unparen(r).(*ast.CallExpr)
			if !ok || !c36isReflectCall(info, call, "TypeOf") {
				return false
			}
		}
		return true
	}
	type ins struct {
		as  *ast.AssignStmt
		m   *types.Var
		key ast.Expr
		val ast.Expr
	}
	type del struct {
		call *ast.CallExpr
		m    *types.Var
		key  ast.Expr
	}
	var inserts []ins
	var deletes []del
	parents := parentMap(f.Decl.Body)
	ast.Inspect(f.Decl.Body, func(x ast.Node) bool {
		switch s := x.(type) {
		case *ast.AssignStmt:
			for i, l := range s.Lhs {
				ix, ok := unparen(l).(*ast.IndexExpr)
				if !ok {
					continue
				}
				mv := isTypeMap(ix.X)
				if mv == nil {
					continue
				}
				// the clone loop `for k, v := range old { dup[k] = v }`: key is the range key of an enclosing range
				isCopy := false
				if kv := c36identObj(info, ix.Index); kv != nil {
					for p := parents[ast.Node(s)]; p != nil; p = parents[p] {
						if rs, ok := p.(*ast.RangeStmt); ok && rs.Key != nil && c36identObj(info, rs.Key) == kv {
							isCopy = true
						}
					}
				}
				if isCopy {
					continue
				}
				if !fromTypeOf(ix.Index) || len(s.Lhs) != len(s.Rhs) {
					c.Undecided(rule, f.Key+": "+nosp(exprStr(l))+"#classify", s.Pos(), m, "an insert into the type table whose key is neither the clone loop's range key nor reflect.TypeOf(v): cannot tell which registration it stands for")
					continue
				}
				inserts = append(inserts, ins{s, mv, ix.Index, s.Rhs[i]})
			}
		case *ast.CallExpr:
			if b, ok := calleeObj(info, s).(*types.Builtin); ok && b.Name() == "delete" && len(s.Args) == 2 {
				if mv := isTypeMap(s.Args[0]); mv != nil {
					deletes = append(deletes, del{s, mv, s.Args[1]})
				}
			}
		}
		return true
	})
	c.Floor(rule+"#insert", len(inserts), 1)
	c.Floor(rule+"#delete", len(deletes), 1)
	for _, in := range inserts {
		ikey := nosp(exprStr(unparen(in.key)))
		for _, d := range deletes {
			if d.m != in.m {
				continue
			}
			con := f.Key + ": delete(" + nosp(exprStr(d.key)) + ") before " + nosp(exprStr(in.as.Lhs[0])) + " = " + nosp(exprStr(in.val))
			after, decided := c36mayRunAfter(f, in.as, d.call)
			if !decided {
				c.Undecided(rule, con, d.call.Pos(), m, "the insert or the delete sits in a closure that is not a directly deferred literal: execution order unknown")
				continue
			}
			if after {
				// tolerated when the delete is guarded by "removed key differs from the inserted key"
				g := f.GraphFor(d.call)
				guarded := false
				if l, ok := g.LocOf(d.call); ok {
					dkey := nosp(exprStr(unparen(d.key)))
					guarded = factMatches(g.FactsAt(l), func(ft Fact) bool {
						be, ok := unparen(ft.Cond).(*ast.BinaryExpr)
						if !ok || ft.Tag != nil {
							return false
						}
						x, y := nosp(exprStr(unparen(be.X))), nosp(exprStr(unparen(be.Y)))
						same := (x == dkey && y == ikey) || (x == ikey && y == dkey)
						return same && ((be.Op == token.NEQ && ft.Val) || (be.Op == token.EQL && !ft.Val))
					})
				}
				if guarded {
					after = false
				}
			}
			c.Check(!after, rule, con, d.call.Pos(), m, "the previous registration's type is removed before the new one is inserted (defer-aware)",
				"the previous registration's type entry is deleted AFTER the new entry was inserted: re-registering the same Go type at the same ID/index deletes the entry just inserted, the type is lost from the encode table and Encode returns ErrNotRegistered")
		}
		// the stored value is final: no write to the value variable can run after the insert
		if v := c36identObj(info, in.val); v != nil {
			_, nodes, _ := c36defsOf(f, v)
			late := ""
			undec := false
			for _, w := range nodes {
				after, decided := c36mayRunAfter(f, in.as, w)
				if !decided {
					undec = true
				} else if after {
					late = m.Position(w.Pos())
				}
			}
			con := f.Key + ": " + nosp(exprStr(in.as.Lhs[0])) + " = " + v.Name() + "#final"
			if undec {
				c.Undecided(rule, con, in.as.Pos(), m, "a write to the stored value sits in a closure whose execution time is unknown")
			} else {
				c.Check(late == "", rule, con, in.as.Pos(), m, "every write to "+v.Name()+" precedes the insert",
					v.Name()+" is (re)assigned at "+late+" after it was copied into the type table: the table holds a registration without the final id/index/codec functions and Encode writes a wrong header")
			}
		} else {
			c.Undecided(rule, f.Key+": "+nosp(exprStr(in.as.Lhs[0]))+"#final", in.as.Pos(), m, "inserted value is not a plain variable")
		}
	}
	// the deleted key is the type of the entry found at the node, under its `exists` flag
	for _, d := range deletes {
		g := f.GraphFor(d.call)
		l, ok := g.LocOf(d.call)
		fld := fieldOfSel(info, d.key)
		okKey := fld != nil && fld.Name() == "typeof"
		guard := false
		if ok && okKey {
			base := nosp(exprStr(unparen(d.key).(*ast.SelectorExpr).X))
			guard = factMatches(g.FactsAt(l), func(ft Fact) bool {
				return ft.Tag == nil && ft.Val && nosp(exprStr(unparen(ft.Cond))) == base+".exists"
			})
		}
		c.Check(okKey && guard, rule, f.Key+": delete("+nosp(exprStr(d.key))+")#previous-entry", d.call.Pos(), m, "removes <node>.typeof only when <node>.exists",
			"the delete does not remove exactly the previous registration's type (<node>.typeof under <node>.exists)")
	}
}

// reflect functions that panic when handed a nil reflect.Type
var c36reflectNilPanics = map[string]bool{"New": true, "Zero": true, "MakeSlice": true, "MakeMap": true, "MakeMapWithSize": true, "MakeChan": true,
	"MakeFunc": true, "PtrTo": true, "PointerTo": true, "SliceOf": true, "ArrayOf": true, "ChanOf": true, "MapOf": true, "NewAt": true}

// (5) every reflect constructor call in pkg/sr that panics on a nil Type, and
// every method call on a tserde.typeof value, is dominated by `X != nil`
// (Register(id, nil, ...) is legal and records a nil type).
func c36reflectGuard(c *Ctx, m *Module) {
	rule := "sr-reflect-type-nonnil"
	n := 0
	for _, f := range m.FuncsIn("sr") {
		info := f.Info()
		for _, nd := range findNodes(f.Decl.Body, true, func(x ast.Node) bool { _, ok := x.(*ast.CallExpr); return ok }) {
			call := nd.(*ast.CallExpr)
			var args []ast.Expr
			what := ""
			if fn, ok := calleeObj(info, call).(*types.Func); ok && fn.Pkg() != nil && fn.Pkg().Path() == "reflect" {
				sig := fn.Type().(*types.Signature)
				if sig.Recv() == nil && c36reflectNilPanics[fn.Name()] {
					what = "reflect." + fn.Name()
					for _, a := range call.Args {
						if tv, ok := info.Types[a]; ok && tv.Type != nil && c36isReflectType(tv.Type) {
							args = append(args, a)
						}
					}
				} else if sig.Recv() != nil {
					// method of reflect.Type called on a tserde.typeof field value
					if sel, ok := unparen(call.Fun).(*ast.SelectorExpr); ok {
						if fld := c36fieldRef(f, sel.X); fld != nil && c36isReflectType(fld.Type()) {
							what = "reflect.Type." + fn.Name()
							args = append(args, sel.X)
						}
					}
				}
			}
			for _, a := range args {
				n++
				c.Touch(f)
				con := f.Key + ": " + what + "(" + nosp(exprStr(a)) + ")"
				g := f.GraphFor(call)
				l, ok := g.LocOf(call)
				if !ok {
					c.Undecided(rule, con, call.Pos(), m, "call not located in the control-flow graph")
					continue
				}
				if inner, ok := unparen(a).(*ast.CallExpr); ok && c36isReflectCall(info, inner, "TypeOf") {
					c.Undecided(rule, con, call.Pos(), m, "reflect.TypeOf(x) is nil for a nil interface: need a guard on x")
					continue
				}
				nonNil := c36nonNilFact(append(g.FactsAt(l), c36shortCircuitFacts(f, call)...), a)
				if nonNil && !c36rootStable(f, a) {
					c.Undecided(rule, con, call.Pos(), m, "the guarded variable is reassigned in the function: the guard may not cover this use")
					continue
				}
				c.Check(nonNil, rule, con, call.Pos(), m, "dominated by "+nosp(exprStr(a))+" != nil",
					what+" panics on a nil Type and "+nosp(exprStr(a))+" is not known non-nil here: Register(id, nil, DecodeFn(f)) records a nil type, so well-formed input naming that ID makes this call panic instead of returning ErrNotRegistered")
			}
		}
	}
	c.Floor(rule, n, 1)
}

// (6) every call through a codec function field of tserde (gen, encode,
// appendEncode; decode is covered by decodeFind's contract) is dominated by a
// non-nil test of that field.
func c36codecCallGuard(c *Ctx, m *Module) {
	rule := "sr-codec-call-nonnil"
	n := 0
	for _, f := range m.FuncsIn("sr") {
		info := f.Info()
		for _, nd := range findNodes(f.Decl.Body, true, func(x ast.Node) bool { _, ok := x.(*ast.CallExpr); return ok }) {
			call := nd.(*ast.CallExpr)
			fld := c36fieldRef(f, call.Fun)
			if fld == nil || !c36isTserdeField(m, fld) {
				continue
			}
			if _, isFn := fld.Type().Underlying().(*types.Signature); !isFn {
				continue
			}
			sel, _ := unparen(call.Fun).(*ast.SelectorExpr)
			n++
			c.Touch(f)
			con := f.Key + ": " + nosp(exprStr(call.Fun)) + "()"
			g := f.GraphFor(call)
			l, okl := g.LocOf(call)
			if !okl {
				c.Undecided(rule, con, call.Pos(), m, "call not located in the control-flow graph")
				continue
			}
			if fld.Name() == "decode" {
				// decodeFind returns an entry only with decode != nil (rule sr-decode-find) and the
				// caller checked its error (rule #decode-after-find): the entry must come from it.
				var v *types.Var
				if sel != nil {
					v = c36identObj(info, sel.X)
				}
				fromFind := false
				if v != nil {
					_, nodes, _ := c36defsOf(f, v)
					if len(nodes) == 1 {
						if as, ok := nodes[0].(*ast.AssignStmt); ok && len(as.Rhs) == 1 {
							if cl, ok := unparen(as.Rhs[0]).(*ast.CallExpr); ok {
								if fn, ok := calleeObj(info, cl).(*types.Func); ok && keyOfObj(fn) == "sr.Serde.decodeFind" {
									fromFind = true
								}
							}
						}
					}
				}
				c.Check(fromFind || c36nonNilFact(g.FactsAt(l), call.Fun), rule, con, call.Pos(), m, "entry comes from decodeFind (decode != nil)", "decode is called on an entry that neither comes from decodeFind nor is tested for a nil decoder")
				continue
			}
			nonNil := c36nonNilFact(append(g.FactsAt(l), c36shortCircuitFacts(f, call)...), call.Fun)
			if nonNil && !c36rootStable(f, call.Fun) {
				c.Undecided(rule, con, call.Pos(), m, "the guarded variable is reassigned in the function")
				continue
			}
			c.Check(nonNil, rule, con, call.Pos(), m, "dominated by "+nosp(exprStr(call.Fun))+" != nil",
				nosp(exprStr(call.Fun))+" may be nil here (the option was not given at registration): calling it panics instead of returning ErrNotRegistered")
		}
	}
	c.Floor(rule, n, 5)
}

// (7) DecodeNew's three-way choice: the value handed to the decoder is
// instantiated on every path by gen() or by reflect.New(t.typeof).Interface();
// ErrNotRegistered is returned exactly when neither is available.
func c36decodeNew(c *Ctx, m *Module) {
	rule := "sr-decodenew-instantiate"
	f := c.NeedFunc(m, "sr.Serde.DecodeNew")
	if f == nil {
		return
	}
	info := f.Info()
	g := f.Graph()
	errNotReg := m.Object("sr", "ErrNotRegistered")
	// the decoder call and its destination argument
	var dec *ast.CallExpr
	nDec := 0
	for _, nd := range findNodes(f.Decl.Body, false, func(x ast.Node) bool { _, ok := x.(*ast.CallExpr); return ok }) {
		call := nd.(*ast.CallExpr)
		if fld := c36fieldRef(f, call.Fun); fld != nil && fld.Name() == "decode" {
			dec = call
			nDec++
		}
	}
	if nDec != 1 || len(dec.Args) != 2 {
		c.Undecided(rule, f.Key+"#decode-call", f.Pos(), m, "expected exactly one t.decode(b, v) call")
		return
	}
	dst := c36identObj(info, dec.Args[1])
	if dst == nil {
		c.Undecided(rule, f.Key+"#decode-dst", dec.Pos(), m, "the decoder's destination is not a plain variable")
		return
	}
	// every assignment to the destination is gen() or reflect.New(typeof).Interface()
	rhs, nodes, opaque := c36defsOf(f, dst)
	if opaque {
		c.Undecided(rule, f.Key+"#dst-writes", f.Pos(), m, "destination variable is written through its address or a multi-value assignment")
		return
	}
	isInst := func(e ast.Expr) string {
		call, ok := unparen(e).(*ast.CallExpr)
		if !ok {
			return ""
		}
		if fld := c36fieldRef(f, call.Fun); fld != nil && fld.Name() == "gen" && len(call.Args) == 0 {
			return "gen"
		}
		// reflect.New(X).Interface()
		if sel, ok := unparen(call.Fun).(*ast.SelectorExpr); ok && sel.Sel.Name == "Interface" && len(call.Args) == 0 {
			if fn, ok := calleeObj(info, call).(*types.Func); ok && keyOfObj(fn) == "reflect.Value.Interface" {
				if inner, ok := unparen(sel.X).(*ast.CallExpr); ok && c36isReflectCall(info, inner, "New") && len(inner.Args) == 1 {
					if fld := c36fieldRef(f, inner.Args[0]); fld != nil && fld.Name() == "typeof" {
						return "new"
					}
				}
			}
		}
		return ""
	}
	kinds := map[string]int{}
	var instNodes []ast.Node
	for _, r := range rhs {
		k := isInst(r)
		kinds[k]++
		if k == "" {
			c.Fail(rule, f.Key+": "+dst.Name()+" = "+nosp(exprStr(r)), r.Pos(), m, "the value handed to the decoder is neither t.gen() nor reflect.New(t.typeof).Interface() (a pointer to a new value of the registered type): the decoder cannot fill it")
		}
	}
	for _, nd := range nodes {
		if as, ok := nd.(*ast.AssignStmt); ok {
			instNodes = append(instNodes, as)
		}
	}
	c.Check(kinds["gen"] >= 1 && kinds["new"] >= 1, rule, f.Key+"#both-sources", f.Pos(), m, "gen() and reflect.New(typeof).Interface()", "DecodeNew no longer instantiates from both GenerateFn and the registered type")
	// must-assign: no path from entry to the decode call that skips every instantiation
	isInstNode := func(n ast.Node) bool {
		for _, x := range instNodes {
			if x == n {
				return true
			}
		}
		return false
	}
	_, skip := g.FindPath(Loc{-1, 0}, SearchOpts{
		Stop: isInstNode,
		GoalNode: func(n ast.Node) bool {
			return containsNode(n, false, func(x ast.Node) bool { return x == ast.Node(dec) })
		},
	})
	c.Check(!skip, rule, f.Key+"#instantiated-on-every-path", dec.Pos(), m, "decoder destination assigned on every path", "a path reaches t.decode(b, v) with v never instantiated (nil interface): the decoder is handed nil")
	// ErrNotRegistered returns: only when gen == nil and typeof == nil, and there is one
	nRej := 0
	for _, rn := range findNodes(f.Decl.Body, false, func(x ast.Node) bool { _, ok := x.(*ast.ReturnStmt); return ok }) {
		r := rn.(*ast.ReturnStmt)
		if len(r.Results) != 2 {
			continue
		}
		id, ok := unparen(r.Results[1]).(*ast.Ident)
		if !ok || errNotReg == nil || info.Uses[id] != errNotReg {
			continue
		}
		l, _ := g.LocOf(r)
		facts := g.FactsAt(l)
		isNil := func(field string) bool {
			return factMatches(facts, func(ft Fact) bool {
				be, ok := unparen(ft.Cond).(*ast.BinaryExpr)
				if !ok || ft.Tag != nil {
					return false
				}
				var other ast.Expr
				if nosp(exprStr(be.Y)) == "nil" {
					other = be.X
				} else if nosp(exprStr(be.X)) == "nil" {
					other = be.Y
				} else {
					return false
				}
				fld := c36fieldRef(f, other)
				if fld == nil || fld.Name() != field {
					return false
				}
				return (be.Op == token.NEQ && !ft.Val) || (be.Op == token.EQL && ft.Val)
			})
		}
		both := isNil("gen") && isNil("typeof")
		if both {
			nRej++
		}
		c.Check(both, rule, f.Key+"#reject-only-when-nothing-to-instantiate", r.Pos(), m, "ErrNotRegistered under gen == nil && typeof == nil",
			"ErrNotRegistered is returned although a GenerateFn or a registered type may be available: a registered ID stops decoding through DecodeNew")
	}
	c.Check(nRej >= 1, rule, f.Key+"#reject-arm", f.Pos(), m, "nil prototype and no GenerateFn -> ErrNotRegistered", "no `return nil, ErrNotRegistered` arm for an entry with neither GenerateFn nor a registered type: nothing can be instantiated for it")
}
