package main

import (
	"fmt"
	"go/ast"
	"go/token"
	"go/types"
	"strings"
)

// Round-4 rules of C03.
//
//   uncounted-promise-only-before-admission#marker-sites: the "never counted"
//   marker batchPromise.beforeBuf makes finishRecordPromise skip the counter
//   decrement and the wake-up.  Every site that writes the marker (composite
//   literal field, positional literal, assignment) is enumerated type-resolved
//   and must either be the literal built by promiseRecordBeforeBuf (whose
//   callers are confined to produce before the admission increment) or store
//   the constant false; every beforeBuffering argument handed to
//   finishRecordPromise is a read of that field (or constant false).
//
//   promise-ring-capacity-floor: the bound of the promise ring (initMaxLen)
//   has a configuration-independent constant floor; it is never just the
//   record limit, because the element whose promise is running stays in the
//   ring and admitted records are pushed with pushForce, so a bound equal to a
//   small MaxBufferedRecords makes the ring "full" whenever a promise runs and
//   every pre-admission failure (TryProduce at the limit, a cancelled blocked
//   Produce) parks behind the promise worker.
//
//   counted-handoff-never-parks: on a ring that has a bound, the blocking push
//   is used only by promiseRecordBeforeBuf; every other pusher forces.

// c03ringFloor is the smallest constant lower bound accepted for the promise
// ring's maxLen (the pinned tree uses 8192).
const c03ringFloor = 1024

func c03round4(c *Ctx, m *Module) {
	c03markerSites(c, m)
	c03ringCapacity(c, m)
}

func c03markerSites(c *Ctx, m *Module) {
	rule := "uncounted-promise-only-before-admission#marker-sites"
	funcs := c01allFuncs(m)
	bb := m.Field("kgo", "batchPromise", "beforeBuf")
	frp := m.Func("kgo.Client.finishRecordPromise")
	if bb == nil || frp == nil {
		c.Undecided(rule, "anchors", 0, m, "batchPromise.beforeBuf or Client.finishRecordPromise not found")
		return
	}
	why := "records reaching this site were already counted by produce (bufferedRecords++ / bufferedBytes +=); finishRecordPromise skips the decrement and the Broadcast for beforeBuf records, so bufferedRecords/bufferedBytes never return to zero: Flush blocks forever on an empty buffer and the leaked slots permanently consume MaxBufferedRecords"
	n := 0
	perFn := map[string]int{}
	for _, st := range StoreSites(funcs, bb) {
		n++
		c.Touch(st.Fn)
		perFn[st.Fn.Key]++
		cons := fmt.Sprintf("%s: beforeBuf store #%d (%s)", st.Fn.Key, perFn[st.Fn.Key], st.Kind)
		if st.Fn.Key == "kgo.producer.promiseRecordBeforeBuf" {
			// the marked batch is the one this function pushes, holding exactly its own record parameter
			ok, detail := c03markedLiteralIsOwnRecord(st.Fn, st.Node)
			c.Check(ok, rule, cons, st.Node.Pos(), m, "the pre-admission failure entry marks only the record it was given", detail)
			continue
		}
		if st.RHS != nil {
			if v, ok := constBool(st.Fn.Info(), st.RHS); ok {
				c.Check(!v, rule, cons, st.Node.Pos(), m, "stores false (counted)", "batchPromise.beforeBuf is set to true in "+st.Fn.Key+", outside the pre-admission failure entry promiseRecordBeforeBuf; "+why)
				continue
			}
			// copying the marker of another batchPromise keeps its meaning
			if sameField(fieldOfSel(st.Fn.Info(), st.RHS), bb) {
				c.OK(rule, cons, st.Node.Pos(), m, "copies the marker of another batch promise")
				continue
			}
		}
		c.Undecided(rule, cons, st.Node.Pos(), m, "batchPromise.beforeBuf is written with a non-constant value (or its address is taken) outside promiseRecordBeforeBuf; whether the records were counted cannot be decided")
	}
	c.Floor(rule, n, 1)
	// arguments of finishRecordPromise
	na := 0
	sig, _ := frp.Obj.Type().(*types.Signature)
	idx := -1
	if sig != nil {
		for i := 0; i < sig.Params().Len(); i++ {
			if b, ok := sig.Params().At(i).Type().Underlying().(*types.Basic); ok && b.Kind() == types.Bool {
				idx = i
			}
		}
	}
	if idx < 0 {
		c.Undecided(rule, frp.Key+"#signature", frp.Pos(), m, "finishRecordPromise has no bool parameter")
		return
	}
	for _, s := range CallSites(funcs, frp.Obj) {
		na++
		call := s.Node.(*ast.CallExpr)
		cons := s.Fn.Key + ": finishRecordPromise beforeBuffering argument"
		if idx >= len(call.Args) {
			c.Undecided(rule, cons, call.Pos(), m, "argument missing")
			continue
		}
		a := call.Args[idx]
		if v, ok := constBool(s.Fn.Info(), a); ok {
			c.Check(!v, rule, cons, call.Pos(), m, "constant false (counted)", "finishRecordPromise is told the record was never counted (constant true); "+why)
			continue
		}
		c.Check(sameField(fieldOfSel(s.Fn.Info(), a), bb), rule, cons, call.Pos(), m, "the marker of the batch promise being drained", "the beforeBuffering argument `"+exprStr(a)+"` is not the beforeBuf field of a batch promise")
	}
	c.Floor(rule+"#args", na, 1)
}

// c03markedLiteralIsOwnRecord: node is the beforeBuf store inside
// promiseRecordBeforeBuf; the literal it belongs to has recs: []promisedRec{<param>}.
func c03markedLiteralIsOwnRecord(f *Func, node ast.Node) (bool, string) {
	info := f.Info()
	var lit *ast.CompositeLit
	ast.Inspect(f.Decl.Body, func(x ast.Node) bool {
		cl, ok := x.(*ast.CompositeLit)
		if !ok {
			return true
		}
		if ast.Node(cl) == node {
			lit = cl
		}
		for _, e := range cl.Elts {
			if ast.Node(e) == node {
				lit = cl
			}
		}
		return true
	})
	if lit == nil {
		return false, "beforeBuf is set outside a batchPromise literal in promiseRecordBeforeBuf"
	}
	var params []types.Object
	for _, fl := range f.Decl.Type.Params.List {
		for _, id := range fl.Names {
			params = append(params, info.Defs[id])
		}
	}
	st, _ := info.Types[lit].Type.Underlying().(*types.Struct)
	for i, e := range lit.Elts {
		var name string
		val := e
		if kv, ok := e.(*ast.KeyValueExpr); ok {
			name = exprStr(kv.Key)
			val = kv.Value
		} else if st != nil && i < st.NumFields() {
			name = st.Field(i).Name()
		}
		if name != "recs" {
			continue
		}
		sl, ok := unparen(val).(*ast.CompositeLit)
		if !ok || len(sl.Elts) != 1 {
			return false, "the marked batch does not hold exactly the one record given to promiseRecordBeforeBuf"
		}
		id, ok := unparen(sl.Elts[0]).(*ast.Ident)
		if !ok {
			return false, "the marked batch's record is not the function's parameter"
		}
		for _, p := range params {
			if info.Uses[id] == p {
				return true, ""
			}
		}
		return false, "the marked batch's record is not the function's parameter"
	}
	return false, "the marked batch has no recs"
}

// c03lowerBound computes a lower bound of an integer expression that holds
// for every configuration (maxBufferedRecords is only known to be >= 0).
func c03lowerBound(f *Func, e ast.Expr, limit *types.Var, depth int) (int64, bool) {
	info := f.Info()
	e = unparen(e)
	if v, ok := constInt(info, e); ok {
		return v, true
	}
	if depth > 6 {
		return 0, false
	}
	switch x := e.(type) {
	case *ast.CallExpr:
		if tv, ok := info.Types[x.Fun]; ok && tv.IsType() && len(x.Args) == 1 {
			// integer conversion of a non-negative value that fits keeps the bound; only widen/narrow between integer kinds
			if b, ok := tv.Type.Underlying().(*types.Basic); ok && b.Info()&types.IsInteger != 0 {
				return c03lowerBound(f, x.Args[0], limit, depth+1)
			}
			return 0, false
		}
		if id, ok := unparen(x.Fun).(*ast.Ident); ok {
			if bi, ok := info.Uses[id].(*types.Builtin); ok {
				switch bi.Name() {
				case "max":
					best, any := int64(0), false
					for _, a := range x.Args {
						if v, ok := c03lowerBound(f, a, limit, depth+1); ok && (!any || v > best) {
							best, any = v, true
						}
					}
					return best, any
				case "min":
					best, any := int64(0), false
					for _, a := range x.Args {
						v, ok := c03lowerBound(f, a, limit, depth+1)
						if !ok {
							return 0, false
						}
						if !any || v < best {
							best, any = v, true
						}
					}
					return best, any
				}
			}
		}
	case *ast.BinaryExpr:
		if x.Op == token.ADD {
			a, ok1 := c03lowerBound(f, x.X, limit, depth+1)
			b, ok2 := c03lowerBound(f, x.Y, limit, depth+1)
			if ok1 && ok2 {
				return a + b, true
			}
		}
	case *ast.SelectorExpr:
		if sameField(fieldOfSel(info, x), limit) {
			return 0, true // validated >= 1; 0 is the conservative bound
		}
	case *ast.Ident:
		if obj, ok := info.Uses[x].(*types.Var); ok && !obj.IsField() {
			if def := singleDef(f, obj); def != nil {
				return c03lowerBound(f, def, limit, depth+1)
			}
		}
	}
	return 0, false
}

func c03ringCapacity(c *Ctx, m *Module) {
	rule := "promise-ring-capacity-floor"
	funcs := c01allFuncs(m) // includes methods named init, which the loader skips
	limit := m.Field("kgo", "cfg", "maxBufferedRecords")
	pbb := c.NeedFunc(m, "kgo.producer.promiseRecordBeforeBuf")
	if limit == nil || pbb == nil {
		if limit == nil {
			c.Undecided(rule, "kgo.cfg.maxBufferedRecords", 0, m, "field not found")
		}
		return
	}
	// the ring the pre-admission failure entry parks on
	var ringField *types.Var
	for _, n := range findNodes(pbb.Decl.Body, true, func(x ast.Node) bool {
		call, ok := x.(*ast.CallExpr)
		if !ok {
			return false
		}
		k := calleeName(pbb.Info(), call)
		return k == "kgo.ring.push" || k == "kgo.ring.pushForce"
	}) {
		if sel, ok := unparen(n.(*ast.CallExpr).Fun).(*ast.SelectorExpr); ok {
			ringField = fieldOfSel(pbb.Info(), sel.X)
		}
	}
	if ringField == nil {
		c.Undecided(rule, pbb.Key+"#ring", pbb.Pos(), m, "the ring promiseRecordBeforeBuf pushes to was not resolved to a struct field")
		return
	}
	bounded := map[*types.Var]bool{}
	n := 0
	for _, f := range funcs {
		if strings.HasPrefix(f.Key, "kgo.ring.") {
			continue
		}
		info := f.Info()
		for _, nd := range findNodes(f.Decl.Body, true, func(x ast.Node) bool {
			call, ok := x.(*ast.CallExpr)
			return ok && calleeName(info, call) == "kgo.ring.initMaxLen"
		}) {
			call := nd.(*ast.CallExpr)
			sel, _ := unparen(call.Fun).(*ast.SelectorExpr)
			var fv *types.Var
			if sel != nil {
				fv = fieldOfSel(info, sel.X)
			}
			if fv == nil || len(call.Args) != 1 {
				c.Undecided(rule, f.Key+": "+exprStr(call.Fun), call.Pos(), m, "initMaxLen on something that is not a ring field")
				continue
			}
			bounded[fv.Origin()] = true
			if !sameField(fv, ringField) {
				continue
			}
			n++
			c.Touch(f)
			cons := f.Key + ": " + fv.Name() + ".initMaxLen"
			lb, ok := c03lowerBound(f, call.Args[0], limit, 0)
			why := "the element whose promise is running stays in the ring and admitted records are pushed with pushForce regardless of the bound, so with a small MaxBufferedRecords the ring is full whenever promises are pending: TryProduce at the limit parks in promiseRecordBeforeBuf instead of failing immediately, a cancelled blocked Produce does not return, and a promise that calls TryProduce parks the promise worker on itself (no promise ever runs again, Flush hangs)"
			switch {
			case !ok:
				c.Undecided(rule, cons, call.Pos(), m, "no configuration-independent lower bound could be derived for `"+exprStr(call.Args[0])+"` (recognised: constants, integer conversions, max/min, +, cfg.maxBufferedRecords, single-assignment locals)")
			case lb < c03ringFloor:
				c.Fail(rule, cons, call.Pos(), m, fmt.Sprintf("the promise ring's bound `%s` can be as small as %d (for a small MaxBufferedRecords) instead of having a constant floor (>= %d; the reference uses max(limit, 8192)): %s", exprStr(call.Args[0]), lb, c03ringFloor, why))
			default:
				c.OK(rule, cons, call.Pos(), m, fmt.Sprintf("bound >= %d for every configuration", lb))
			}
		}
	}
	c.Floor(rule, n, 1)
	// blocking pushes on bounded rings only from the pre-admission failure entry
	rule2 := "counted-handoff-never-parks"
	np := 0
	for _, f := range funcs {
		if strings.HasPrefix(f.Key, "kgo.ring.") {
			continue
		}
		info := f.Info()
		for _, nd := range findNodes(f.Decl.Body, true, func(x ast.Node) bool {
			call, ok := x.(*ast.CallExpr)
			return ok && calleeName(info, call) == "kgo.ring.push"
		}) {
			call := nd.(*ast.CallExpr)
			sel, _ := unparen(call.Fun).(*ast.SelectorExpr)
			var fv *types.Var
			if sel != nil {
				fv = fieldOfSel(info, sel.X)
			}
			if fv == nil {
				c.Undecided(rule2, f.Key+": "+exprStr(call.Fun), call.Pos(), m, "blocking push on something that is not a ring field")
				continue
			}
			if !bounded[fv.Origin()] {
				continue // no bound: push never parks
			}
			np++
			c.Check(f.Key == "kgo.producer.promiseRecordBeforeBuf", rule2, f.Key+": "+fv.Name()+".push", call.Pos(), m, "only pre-admission failures take the blocking push",
				"a blocking push on the bounded promise ring outside promiseRecordBeforeBuf: hand-offs of admitted records run under client locks (purge/fail paths, metadata updates, recBuf.mu) and park there while the promise worker - the only goroutine that frees ring space - may need that lock through a user promise; the records' promises never run and Flush never returns")
		}
	}
	c.Floor(rule2, np, 1)
}
