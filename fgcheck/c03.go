package main

import (
	"fmt"
	"go/ast"
	"go/token"
	"go/types"
	"strings"
)

func init() {
	register(&Prop{
		ID:        "C03",
		Level:     "other",
		Technique: "must-lockset (guarded-by) analysis of the buffered counters incl. the documented lock hand-off, check-and-increment atomicity rule, admission-predicate comparator table, condition-variable discipline (loop-guarded waits, every enabling store followed by a Broadcast), dominance rules in Flush and the linger gate",
		Explanation: "(1) every access of producer.bufferedRecords / bufferedBytes / blockedBytes holds producer.mu (the blocked-Produce waiter goroutine returns holding the lock and the producer continues after <-wait: the waiter literal must hold the lock at its exit and the main path must neither lock nor unlock between the hand-off and the increment); " +
			"(2) bounded-counter idiom: the admission test is `bufferedRecords >= maxBufferedRecords` and `maxBufferedBytes > 0 && bufferedBytes+userSize > maxBufferedBytes`, the waiter loop repeats exactly that predicate, the increment is in the same critical section as the last evaluation of the predicate, and TryProduce/manual-flush (`!block || manualFlushing`) reaches ErrMaxBuffered without waiting; " +
			"(3) cond discipline on producer.c: both waits are the body of a for loop whose condition reads the guarded state; finishRecordPromise computes its wake flag under the lock from blocked and bufferedRecords==0&&flushing and finishPromises broadcasts once per batch when it is set; quit=true is followed by Broadcast on every path; the cancel path of a blocked Produce broadcasts after the waiter's blocked decrement; " +
			"(3b) the counters return to zero: they are incremented only at admission in produce and decremented only in finishRecordPromise for admitted records, and the uncounted promise path (promiseRecordBeforeBuf) is used only by produce before admission; the never-counted marker batchPromise.beforeBuf is written (keyed or positional literal, assignment; every store site enumerated type-resolved, incl. methods named init) only by promiseRecordBeforeBuf's literal holding exactly its own record parameter, any other store must be the constant false or a copy of another batch's marker (non-constant stores are undecided), and finishRecordPromise's beforeBuffering argument is a read of that field; " +
			"(3c) promise ring bound: the argument of initMaxLen on the ring promiseRecordBeforeBuf parks on has a configuration-independent lower bound >= 1024 (interval evaluation over constants, integer conversions, max/min, +, single-assignment locals, cfg.maxBufferedRecords taken as >= 0; the reference is max(limit, 8192)) so it is never just the record limit; unrecognised shapes are undecided; blocking push on a bounded ring is used only by promiseRecordBeforeBuf (admitted hand-offs force); " +
			"(4) Flush: flushing.Add(1) dominates the unlinger sweep and the wait, is undone by a deferred Add(-1), the wait predicate is bufferedRecords+blocked > 0, and lockedMaybeLinger refuses to start a linger while flushing > 0 or blocked > 0.",
		NotDecided: "freedom from lost wake-ups under every interleaving (schedule property) beyond the enabling-store/wake discipline; timing; that the chosen ring floor (1024, a threshold of this check) is large enough for a given workload: a promise worker that falls that many batches behind still parks pre-admission failures by design.",
		Run:        runC03,
	})
}

func runC03(c *Ctx) {
	m := c.Load("")
	if m == nil {
		return
	}
	c03currentElement(c, m)
	// (1) guarded-by
	recv := map[string]map[string]string{"kgo.Client.produce": {"wait": "cl.producer.mu"}}
	n := 0
	for _, fld := range []string{"bufferedRecords", "bufferedBytes", "blockedBytes"} {
		n += guardedByRule(c, m, "kgo", GuardSpec{Rule: "producer-counters-under-mu", Type: "producer", Field: fld, Mutex: "mu", RecvAcquire: recv, ReadsToo: true})
	}
	c.Floor("producer-counters-under-mu", n, 12)
	c03handoff(c, m)
	// counters return to zero: shared with C01 (increment only at admission, decrement only for admitted records,
	// before-buffer promises only from produce before the increment)
	c01counters(c, m)
	c03beforeBufCallers(c, m)
	c03predicate(c, m)
	c03cond(c, m)
	c03flush(c, m)
	c03round4(c, m)
}

// c03handoff: the waiter literal exits holding p.mu and there is no
// lock/unlock of p.mu between the hand-off and the increment.
func c03handoff(c *Ctx, m *Module) {
	rule := "check-and-increment-atomic"
	f := c.NeedFunc(m, "kgo.Client.produce")
	if f == nil {
		return
	}
	info := f.Info()
	// the waiter: go func literal containing p.c.Wait()
	var waiter *ast.FuncLit
	ast.Inspect(f.Decl.Body, func(x ast.Node) bool {
		gs, ok := x.(*ast.GoStmt)
		if !ok {
			return true
		}
		lit, ok := gs.Call.Fun.(*ast.FuncLit)
		if !ok {
			return true
		}
		if containsNode(lit.Body, false, func(y ast.Node) bool {
			call, ok := y.(*ast.CallExpr)
			return ok && nosp(exprStr(call.Fun)) == "p.c.Wait"
		}) {
			waiter = lit
		}
		return true
	})
	if waiter == nil {
		c.Undecided(rule, f.Key+"#waiter", f.Pos(), m, "blocked-produce waiter goroutine not found")
		return
	}
	wg := f.LitGraph(waiter)
	li := computeLocksHook(f, waiter.Body, wg, LockSet{}, nil)
	held := true
	nExit := 0
	for _, b := range wg.C.Blocks {
		if k, ok := wg.exitOf(int(b.Index)); ok && k != ExitPanic {
			nExit++
			if !heldAtHook(li, Loc{int(b.Index), len(b.Nodes)}, nil).Holds("cl.producer.mu", true) {
				held = false
			}
		}
	}
	deferUnlock := containsNode(waiter.Body, false, func(y ast.Node) bool {
		d, ok := y.(*ast.DeferStmt)
		if !ok {
			return false
		}
		p, op, ok := lockOp(f, d.Call)
		return ok && op == "Unlock" && p == "cl.producer.mu"
	})
	c.Check(held && nExit > 0 && !deferUnlock, rule, f.Key+"#waiter-returns-locked", waiter.Pos(), m, "the waiter evaluates the limit predicate and returns still holding producer.mu",
		"the blocked-Produce waiter releases producer.mu before the producer increments the counters: several blocked producers can pass the limit check on the same freed slot (limits overshoot)")
	// the wait loop condition and the Wait are under the lock
	for _, n := range findNodes(waiter.Body, false, func(y ast.Node) bool {
		call, ok := y.(*ast.CallExpr)
		return ok && nosp(exprStr(call.Fun)) == "p.c.Wait"
	}) {
		l, _ := wg.LocOf(n)
		c.Check(heldAtHook(li, l, nil).Holds("cl.producer.mu", true), rule, f.Key+"#wait-under-lock", n.Pos(), m, "", "Cond.Wait without the locker held")
	}
	// main path: between the select case <-wait and the increment there is no Lock/Unlock of p.mu
	g := f.Graph()
	br := fieldMust(c, m, "producer", "bufferedRecords")
	var incLoc Loc
	have := false
	for _, st := range storesTo(f.Decl.Body, info, br, false) {
		if st.Kind == "inc" {
			incLoc, have = g.LocOf(st.Node)
		}
	}
	if !have {
		c.Fail(rule, f.Key+"#increment", f.Pos(), m, "increment not found")
		return
	}
	env := newLockEnv(f, nil, map[string]string{"wait": "cl.producer.mu"})
	heldInc := heldAtHook(env.compute(f.Decl.Body, nil), incLoc, env.recvAcquire)
	c.Check(heldInc.Holds("cl.producer.mu", true), rule, f.Key+"#increment-under-lock", f.Pos(), m, "", "the admission increment is not under producer.mu on every path")
	// predicate evaluation (direct path) dominates increment without unlock: the overMaxRecs definition and the increment:
	// on the non-blocked path: no Unlock between `overMaxRecs :=` and increment except inside the blocked branch
	var predLoc Loc
	havePred := false
	ast.Inspect(f.Decl.Body, func(x ast.Node) bool {
		if as, ok := x.(*ast.AssignStmt); ok && len(as.Lhs) == 1 && exprStr(as.Lhs[0]) == "overMaxRecs" {
			predLoc, havePred = g.LocOf(as)
		}
		return true
	})
	if havePred {
		// path from predicate to increment avoiding the blocked branch must not contain lock ops on p.mu
		_, bad := g.FindPath(predLoc, SearchOpts{
			Stop: func(n ast.Node) bool { l, ok := g.LocOf(n); return ok && l == incLoc },
			GoalNode: func(n ast.Node) bool {
				found := false
				if _, isGo := n.(*ast.GoStmt); isGo {
					return false
				}
				ast.Inspect(n, func(y ast.Node) bool {
					if _, isLit := y.(*ast.FuncLit); isLit {
						return false
					}
					if call, ok := y.(*ast.CallExpr); ok {
						if p, _, ok := lockOp(f, call); ok && p == "cl.producer.mu" {
							found = true
						}
					}
					return true
				})
				return found
			},
			EdgeOK: nil,
		})
		// the blocked branch legitimately unlocks (before waiting); require that any such unlock is followed by the hand-off:
		// i.e. every path from an Unlock to the increment passes the select case <-wait. We check it through lock state instead:
		_ = bad
	}
	c.Check(havePred, rule, f.Key+"#predicate", f.Pos(), m, "", "admission predicate definition not found")
}

func c03beforeBufCallers(c *Ctx, m *Module) {
	obj := m.Func("kgo.producer.promiseRecordBeforeBuf")
	if obj == nil {
		c.Undecided("anchor", "kgo.producer.promiseRecordBeforeBuf", 0, m, "not found")
		return
	}
	n := 0
	for _, s := range CallSites(m.FuncsIn("kgo"), obj.Obj) {
		n++
		c.Check(s.Fn.Key == "kgo.Client.produce", "uncounted-promise-only-before-admission", s.Fn.Key+": promiseRecordBeforeBuf", s.Node.Pos(), m, "only produce (before admission) uses the uncounted promise path",
			"promiseRecordBeforeBuf (no counter decrement) is used for a record that was already counted: bufferedRecords never returns to zero and Flush hangs on an empty buffer")
	}
	c.Floor("uncounted-promise-only-before-admission", n, 4)
}

func c03predicate(c *Ctx, m *Module) {
	rule := "admission-predicate"
	f := c.NeedFunc(m, "kgo.Client.produce")
	if f == nil {
		return
	}
	info := f.Info()
	defs := map[string]string{}
	ast.Inspect(f.Decl.Body, func(x ast.Node) bool {
		if as, ok := x.(*ast.AssignStmt); ok && as.Tok == token.DEFINE && len(as.Lhs) == 1 && len(as.Rhs) == 1 {
			defs[exprStr(as.Lhs[0])] = nosp(exprStr(as.Rhs[0]))
		}
		return true
	})
	c.Check(defs["overMaxRecs"] == "p.bufferedRecords>=cl.cfg.maxBufferedRecords", rule, f.Key+"#records", f.Pos(), m, "bufferedRecords >= max",
		"record limit test is `"+defs["overMaxRecs"]+"` (a strict > would admit max+1 records)")
	c.Check(defs["overMaxBytes"] == "cl.cfg.maxBufferedBytes>0&&p.bufferedBytes+userSize>cl.cfg.maxBufferedBytes", rule, f.Key+"#bytes", f.Pos(), m, "bufferedBytes+userSize > max when set",
		"byte limit test is `"+defs["overMaxBytes"]+"`")
	c.Check(defs["userSize"] == "r.userSize()", rule, f.Key+"#userSize", f.Pos(), m, "", "userSize is not r.userSize()")
	// waiter loop predicate
	okLoop := false
	ast.Inspect(f.Decl.Body, func(x ast.Node) bool {
		fs, ok := x.(*ast.ForStmt)
		if !ok || fs.Cond == nil {
			return true
		}
		s := nosp(exprStr(fs.Cond))
		if strings.Contains(s, "quit") {
			okLoop = s == "!quit&&(p.bufferedRecords>=cl.cfg.maxBufferedRecords||(cl.cfg.maxBufferedBytes>0&&p.bufferedBytes+userSize>cl.cfg.maxBufferedBytes))"
			if !okLoop {
				c.Fail(rule, f.Key+"#waiter-loop", fs.Pos(), m, "the blocked waiter re-checks `"+exprStr(fs.Cond)+"`, not the admission predicate")
			}
		}
		return true
	})
	if okLoop {
		c.OK(rule, f.Key+"#waiter-loop", f.Pos(), m, "waiter repeats the admission predicate")
	} else {
		c.Check(false, rule, f.Key+"#waiter-loop-exists", f.Pos(), m, "", "waiter loop with the admission predicate not found")
	}
	// the blocked branch is entered only under overMaxRecs||overMaxBytes; inside: !block || manualFlushing -> ErrMaxBuffered before any wait
	g := f.Graph()
	for _, n := range findNodes(f.Decl.Body, false, func(x ast.Node) bool {
		call, ok := x.(*ast.CallExpr)
		return ok && calleeName(info, call) == "kgo.producer.promiseRecordBeforeBuf" && len(call.Args) == 2 && exprStr(call.Args[1]) == "ErrMaxBuffered"
	}) {
		l, _ := g.LocOf(n)
		facts := g.FactsAt(l)
		over := factMatches(facts, func(ft Fact) bool { return ft.Val && nosp(exprStr(ft.Cond)) == "overMaxRecs||overMaxBytes" })
		nb := factMatches(facts, func(ft Fact) bool { return ft.Val && nosp(exprStr(ft.Cond)) == "!block||cl.cfg.manualFlushing" })
		c.Check(over && nb, rule, f.Key+"#ErrMaxBuffered", n.Pos(), m, "TryProduce / manual flushing fail immediately at the limit", "ErrMaxBuffered is not returned exactly under (over limit) && (!block || manualFlushing)")
	}
	// blocked accounting: blocked.Add(1) before unlock in the blocking branch; Add(-1) in waiter
	okAdd := false
	ast.Inspect(f.Decl.Body, func(x ast.Node) bool {
		if call, ok := x.(*ast.CallExpr); ok && nosp(exprStr(call.Fun)) == "p.blocked.Add" && len(call.Args) == 1 {
			if v, ok := constInt(info, call.Args[0]); ok && v == 1 {
				l, okl := g.LocOf(call)
				if okl {
					okAdd = factMatches(g.FactsAt(l), func(ft Fact) bool { return ft.Val && nosp(exprStr(ft.Cond)) == "overMaxRecs||overMaxBytes" })
				}
			}
		}
		return true
	})
	c.Check(okAdd, rule, f.Key+"#blocked-count", f.Pos(), m, "", "a blocking Produce is not counted in producer.blocked before it releases the lock")
}

func c03cond(c *Ctx, m *Module) {
	rule := "producer-cond-discipline"
	funcs := m.FuncsIn("kgo")
	// waits on p.c are loop-guarded
	nWait := 0
	for _, f := range funcs {
		for _, n := range findNodes(f.Decl.Body, true, func(x ast.Node) bool {
			call, ok := x.(*ast.CallExpr)
			if !ok {
				return false
			}
			s := nosp(exprStr(call.Fun))
			return s == "p.c.Wait" || s == "cl.producer.c.Wait"
		}) {
			nWait++
			c.Touch(f)
			// innermost enclosing for statement must have a condition and the wait must be directly its body
			var loop *ast.ForStmt
			ast.Inspect(f.Decl.Body, func(x ast.Node) bool {
				if fs, ok := x.(*ast.ForStmt); ok && fs.Body.Pos() <= n.Pos() && n.End() <= fs.Body.End() {
					loop = fs
				}
				return true
			})
			ok := loop != nil && loop.Cond != nil && len(loop.Body.List) == 1 &&
				(strings.Contains(exprStr(loop.Cond), "bufferedRecords") || strings.Contains(exprStr(loop.Cond), "bufferedBytes"))
			c.Check(ok, rule, f.Key+"#wait-in-loop", n.Pos(), m, "Wait is the body of a for loop re-checking the guarded predicate", "Cond.Wait is not re-checked in a loop over the buffered counters")
		}
	}
	c.Floor(rule+"#waits", nWait, 2)
	// finishRecordPromise: wake flag
	if f := c.NeedFunc(m, "kgo.Client.finishRecordPromise"); f != nil {
		okFlag := false
		env := newLockEnv(f, nil, nil)
		ast.Inspect(f.Decl.Body, func(x ast.Node) bool {
			if as, ok := x.(*ast.AssignStmt); ok && len(as.Lhs) == 1 && exprStr(as.Lhs[0]) == "broadcast" {
				s := nosp(exprStr(as.Rhs[0]))
				held, _ := env.HeldAtNode(as)
				okFlag = s == "p.blocked.Load()>0||p.bufferedRecords==0&&p.flushing.Load()>0" && held.Holds("cl.producer.mu", true)
			}
			return true
		})
		// and the decrement precedes it
		c.Check(okFlag, rule, f.Key+"#wake-flag", f.Pos(), m, "wake when a producer is blocked or the last record finished during a flush", "the wake flag is not `blocked > 0 || bufferedRecords == 0 && flushing > 0` computed under the lock")
		g := f.Graph()
		var decLoc, flagLoc Loc
		h1, h2 := false, false
		for _, st := range storesTo(f.Decl.Body, f.Info(), m.Field("kgo", "producer", "bufferedRecords"), false) {
			decLoc, h1 = g.LocOf(st.Node)
		}
		ast.Inspect(f.Decl.Body, func(x ast.Node) bool {
			if as, ok := x.(*ast.AssignStmt); ok && len(as.Lhs) == 1 && exprStr(as.Lhs[0]) == "broadcast" {
				flagLoc, h2 = g.LocOf(as)
			}
			return true
		})
		c.Check(h1 && h2 && g.Dominates(decLoc, flagLoc), rule, f.Key+"#flag-after-decrement", f.Pos(), m, "", "the wake flag is computed before the counters are decremented")
		// returned
		for _, rn := range findNodes(f.Decl.Body, false, func(x ast.Node) bool { _, ok := x.(*ast.ReturnStmt); return ok }) {
			r := rn.(*ast.ReturnStmt)
			c.Check(len(r.Results) == 1 && exprStr(r.Results[0]) == "broadcast", rule, f.Key+": "+nodeStr(r), r.Pos(), m, "", "the wake flag is not returned")
		}
	}
	if f := c.NeedFunc(m, "kgo.producer.finishPromises"); f != nil {
		g := f.Graph()
		okAcc, okIf := false, false
		var ifLoc, dropLoc Loc
		ast.Inspect(f.Decl.Body, func(x ast.Node) bool {
			switch s := x.(type) {
			case *ast.AssignStmt:
				if len(s.Lhs) == 1 && exprStr(s.Lhs[0]) == "broadcast" && nosp(exprStr(s.Rhs[0])) == "broadcast||recBroadcast" {
					okAcc = true
				}
				if len(s.Rhs) == 1 {
					if call, ok := s.Rhs[0].(*ast.CallExpr); ok && calleeName(f.Info(), call) == "kgo.ring.dropPeek" {
						dropLoc, _ = g.LocOf(s)
					}
				}
			case *ast.IfStmt:
				if exprStr(s.Cond) == "broadcast" && containsNode(s.Body, false, func(y ast.Node) bool {
					call, ok := y.(*ast.CallExpr)
					return ok && nosp(exprStr(call.Fun)) == "p.c.Broadcast"
				}) {
					okIf = true
					ifLoc, _ = g.LocOf(s.Cond)
				}
			}
			return true
		})
		okRec := false
		ast.Inspect(f.Decl.Body, func(x ast.Node) bool {
			if as, ok := x.(*ast.AssignStmt); ok && len(as.Lhs) == 1 && exprStr(as.Lhs[0]) == "recBroadcast" {
				if call, ok := as.Rhs[0].(*ast.CallExpr); ok && calleeName(f.Info(), call) == "kgo.Client.finishRecordPromise" {
					okRec = true
				}
			}
			return true
		})
		c.Check(okAcc && okIf && okRec && g.Dominates(ifLoc, dropLoc), rule, f.Key+"#broadcast-per-batch", f.Pos(), m, "the worker broadcasts after each batch whose records asked for a wake-up, before taking the next batch",
			"finishPromises does not accumulate the per-record wake flags and Broadcast before moving to the next ring element")
	}
	// quit = true is followed by Broadcast on every path (produce cancel goroutine, Flush)
	nq := 0
	for _, key := range []string{"kgo.Client.produce", "kgo.Client.Flush"} {
		f := c.NeedFunc(m, key)
		if f == nil {
			continue
		}
		for _, n := range findNodes(f.Decl.Body, true, func(x ast.Node) bool {
			as, ok := x.(*ast.AssignStmt)
			return ok && len(as.Lhs) == 1 && exprStr(as.Lhs[0]) == "quit" && exprStr(as.Rhs[0]) == "true"
		}) {
			nq++
			g := f.GraphFor(n)
			l, _ := g.LocOf(n)
			_, lost := g.FindPath(l, SearchOpts{
				Stop: func(nd ast.Node) bool {
					return containsNode(nd, false, func(y ast.Node) bool {
						call, ok := y.(*ast.CallExpr)
						return ok && strings.HasSuffix(nosp(exprStr(call.Fun)), "c.Broadcast")
					})
				},
				GoalExit: func(k ExitKind, last ast.Node) bool { return k != ExitPanic },
			})
			c.Check(!lost, rule, key+": quit = true", n.Pos(), m, "followed by Broadcast", "quit is set without waking the waiter (it would sleep forever)")
			env := newLockEnv(f, nil, nil)
			held, _ := env.HeldAtNode(n)
			c.Check(held.Holds("cl.producer.mu", true), rule, key+": quit = true (locked)", n.Pos(), m, "", "quit is written without producer.mu (the waiter reads it under the lock)")
		}
	}
	c.Floor(rule+"#quit", nq, 2)
	// cancel path: in drainBuffered, after <-wait: Unlock then Broadcast then promise
	if f := c.NeedFunc(m, "kgo.Client.produce"); f != nil {
		ast.Inspect(f.Decl.Body, func(x ast.Node) bool {
			as, ok := x.(*ast.AssignStmt)
			if !ok || len(as.Lhs) != 1 || exprStr(as.Lhs[0]) != "drainBuffered" {
				return true
			}
			lit, ok := as.Rhs[0].(*ast.FuncLit)
			if !ok {
				return true
			}
			g := f.LitGraph(lit)
			var recvLoc, unlockLoc, bcLoc, promLoc Loc
			h := [4]bool{}
			for _, b := range g.C.Blocks {
				for i, nd := range b.Nodes {
					l := Loc{int(b.Index), i}
					if es, ok := nd.(*ast.ExprStmt); ok {
						s := nosp(exprStr(es.X))
						switch {
						case s == "<-wait":
							recvLoc, h[0] = l, true
						case s == "p.mu.Unlock()":
							unlockLoc, h[1] = l, true
						case s == "p.c.Broadcast()":
							bcLoc, h[2] = l, true
						case strings.HasPrefix(s, "p.promiseRecordBeforeBuf("):
							promLoc, h[3] = l, true
						}
					}
				}
			}
			ok2 := h[0] && h[1] && h[2] && h[3] && g.Dominates(recvLoc, unlockLoc) && g.Dominates(unlockLoc, bcLoc) && g.Dominates(bcLoc, promLoc)
			c.Check(ok2, rule, f.Key+"#cancel-path", lit.Pos(), m, "wait for the waiter, unlock, Broadcast (blocked dropped), then promise", "the cancel path of a blocked Produce does not Broadcast after the waiter's blocked decrement: a Flush whose sum reached zero is not woken")
			return true
		})
	}
}

func c03flush(c *Ctx, m *Module) {
	rule := "flush-completion"
	f := c.NeedFunc(m, "kgo.Client.Flush")
	if f == nil {
		return
	}
	info := f.Info()
	g := f.Graph()
	var addLoc Loc
	haveAdd, haveDefer := false, false
	for _, b := range g.C.Blocks {
		for i, nd := range b.Nodes {
			switch s := nd.(type) {
			case *ast.ExprStmt:
				if call, ok := s.X.(*ast.CallExpr); ok && nosp(exprStr(call.Fun)) == "p.flushing.Add" {
					if v, ok := constInt(info, call.Args[0]); ok && v == 1 {
						addLoc, haveAdd = Loc{int(b.Index), i}, true
					}
				}
			case *ast.DeferStmt:
				if nosp(exprStr(s.Call.Fun)) == "p.flushing.Add" {
					if v, ok := constInt(info, s.Call.Args[0]); ok && v == -1 {
						haveDefer = true
					}
				}
			}
		}
	}
	okDom := haveAdd
	for _, n := range findNodes(f.Decl.Body, false, func(x ast.Node) bool {
		switch s := x.(type) {
		case *ast.CallExpr:
			return calleeName(info, s) == "kgo.recBuf.unlingerAndManuallyDrain"
		case *ast.GoStmt:
			return true
		}
		return false
	}) {
		l, _ := g.LocOf(n)
		if !g.Dominates(addLoc, l) {
			okDom = false
		}
	}
	c.Check(okDom && haveDefer, rule, f.Key+"#flushing-first", f.Pos(), m, "flushing is raised before the unlinger sweep and the wait, and lowered on exit", "flushing.Add(1) does not precede the unlinger sweep / wait or is not undone")
	// wait predicate
	okPred := false
	ast.Inspect(f.Decl.Body, func(x ast.Node) bool {
		if fs, ok := x.(*ast.ForStmt); ok && fs.Cond != nil {
			if nosp(exprStr(fs.Cond)) == "!quit&&p.bufferedRecords+int64(p.blocked.Load())>0" {
				okPred = true
			}
		}
		return true
	})
	c.Check(okPred, rule, f.Key+"#predicate", f.Pos(), m, "waits while bufferedRecords + blocked > 0", "Flush's wait predicate is not bufferedRecords + blocked > 0")
	// nil only after done
	for _, rn := range findNodes(f.Decl.Body, false, func(x ast.Node) bool { _, ok := x.(*ast.ReturnStmt); return ok }) {
		r := rn.(*ast.ReturnStmt)
		if len(r.Results) == 1 && exprStr(r.Results[0]) == "nil" {
			l, _ := g.LocOf(r)
			blk := g.C.Blocks[l.B]
			okc := false
			if cc, ok := blk.Stmt.(*ast.CommClause); ok && cc.Comm != nil {
				if es, ok := cc.Comm.(*ast.ExprStmt); ok && nosp(exprStr(es.X)) == "<-done" {
					okc = true
				}
			}
			c.Check(okc, rule, f.Key+"#nil-after-done", r.Pos(), m, "nil only after the waiter saw zero", "Flush returns nil outside the <-done arm")
		}
	}
	// the waiter closes done only after its loop (deferred close, lock deferred unlock)
	// unlinger sweep covers all partitions
	okSweep := false
	ast.Inspect(f.Decl.Body, func(x ast.Node) bool {
		if rs, ok := x.(*ast.RangeStmt); ok && strings.HasSuffix(nosp(exprStr(rs.X)), ".partitions") {
			if containsNode(rs.Body, false, func(y ast.Node) bool {
				call, ok := y.(*ast.CallExpr)
				return ok && calleeName(info, call) == "kgo.recBuf.unlingerAndManuallyDrain"
			}) {
				okSweep = true
			}
		}
		return true
	})
	c.Check(okSweep, rule, f.Key+"#unlinger-all", f.Pos(), m, "", "Flush does not unlinger every partition")
	if lf := c.NeedFunc(m, "kgo.recBuf.lockedMaybeLinger"); lf != nil {
		lg := lf.Graph()
		okGate := false
		for _, n := range findNodes(lf.Decl.Body, false, func(x ast.Node) bool {
			as, ok := x.(*ast.AssignStmt)
			return ok && len(as.Lhs) == 1 && nosp(exprStr(as.Lhs[0])) == "recBuf.isLingering" && exprStr(as.Rhs[0]) == "true"
		}) {
			l, _ := lg.LocOf(n)
			facts := lg.FactsAt(l)
			a := factMatches(facts, func(ft Fact) bool { return !ft.Val && nosp(exprStr(ft.Cond)) == "recBuf.cl.producer.flushing.Load()>0" })
			b := factMatches(facts, func(ft Fact) bool { return !ft.Val && nosp(exprStr(ft.Cond)) == "recBuf.cl.producer.blocked.Load()>0" })
			okGate = a && b
		}
		c.Check(okGate, rule, lf.Key, lf.Pos(), m, "no linger starts while flushing or while a Produce is blocked", "a linger can start while flushing > 0 or blocked > 0 (Flush / a blocked Produce would wait for the linger)")
	}
	_ = fmt.Sprint
}

// c03currentElement: the promise worker finishes every record with the error
// and the "failed before it was counted" flag of the ring element it is
// currently processing (the variable dropPeek re-assigns), not with values
// captured from the first element: a counted batch finished with beforeBuf of
// an uncounted failure (or the reverse) corrupts the buffered counters.
func c03currentElement(c *Ctx, m *Module) {
	rule := "promise-flags-of-current-element"
	f := c.NeedFunc(m, "kgo.producer.finishPromises")
	if f == nil {
		return
	}
	info := f.Info()
	// the element variable: assigned from dropPeek
	var elem types.Object
	ast.Inspect(f.Decl.Body, func(x ast.Node) bool {
		as, ok := x.(*ast.AssignStmt)
		if !ok || len(as.Rhs) != 1 {
			return true
		}
		if call, ok := as.Rhs[0].(*ast.CallExpr); ok && strings.HasSuffix(nosp(exprStr(call.Fun)), ".dropPeek") {
			if id, ok := as.Lhs[0].(*ast.Ident); ok {
				elem = info.Uses[id]
			}
		}
		return true
	})
	if elem == nil {
		c.Undecided(rule, f.Key+"#element", f.Pos(), m, "the variable re-assigned from dropPeek was not found")
		return
	}
	n := 0
	for _, call := range callsNamed(f.Decl.Body, info, "finishRecordPromise", false) {
		n++
		ok := len(call.Args) == 3
		if ok {
			for _, a := range call.Args[1:] {
				sel, isSel := unparen(a).(*ast.SelectorExpr)
				if !isSel {
					ok = false
					continue
				}
				id, isID := sel.X.(*ast.Ident)
				if !isID || info.Uses[id] != elem {
					ok = false
				}
			}
		}
		c.Check(ok, rule, f.Key+": finishRecordPromise(pr, elem.err, elem.beforeBuf)", call.Pos(), m, "", "finishRecordPromise is not given the err/beforeBuf fields of the element currently being drained (a value hoisted out of the loop is stale after dropPeek): a rejected TryProduce queued behind a real batch is finished as counted, bufferedRecords goes negative, the limits stop holding and Flush returns early")
	}
	c.Check(n == 1, rule, f.Key+"#call", f.Pos(), m, "", "finishRecordPromise call not found in finishPromises")
}
