package main

import (
	"fmt"
	"go/ast"
	"go/token"
	"go/types"
	"strings"
)

// recField returns the name of the kgo.Record field selected by x, or "".
func (e *c20env) recField(x ast.Expr) string {
	fv := fieldOfSel(e.info, x)
	if fv == nil {
		return ""
	}
	st := e.rec.Underlying().(*types.Struct)
	for i := 0; i < st.NumFields(); i++ {
		if sameField(st.Field(i), fv) {
			return fv.Name()
		}
	}
	return ""
}

// srcDesc describes what a writer expression reads: "Field", "len:Field", "ms:Field<-K" or "?expr".
func (e *c20env) srcDesc(x ast.Expr) string {
	x = c19strip(e.info, x)
	if call, ok := x.(*ast.CallExpr); ok && exprStr(call.Fun) == "len" && len(call.Args) == 1 {
		if f := e.recField(c19strip(e.info, call.Args[0])); f != "" {
			return "len:" + f
		}
	}
	if f := e.recField(x); f != "" {
		return f
	}
	return "?" + exprStr(x)
}

type c20clause struct {
	verb byte
	cc   *ast.CaseClause
}

// verbClauses returns the single-character case clauses of every switch over
// the verb variable, and the set of all verb characters in case lists.
func (e *c20env) verbClauses(f *Func) ([]c20clause, map[byte]bool, types.Object) {
	info := f.Info()
	var tag types.Object
	var out []c20clause
	all := map[byte]bool{}
	ast.Inspect(f.Decl.Body, func(x ast.Node) bool {
		sw, ok := x.(*ast.SwitchStmt)
		if !ok || sw.Tag == nil {
			return true
		}
		o := c19objOf(info, sw.Tag)
		v, isVar := o.(*types.Var)
		if !isVar {
			return true
		}
		if b, ok := v.Type().Underlying().(*types.Basic); !ok || b.Kind() != types.Uint8 {
			return true
		}
		if tag == nil {
			tag = o
		}
		if o != tag {
			return true
		}
		for _, st := range sw.Body.List {
			cc := st.(*ast.CaseClause)
			for _, ce := range cc.List {
				if v, ok := constInt(info, ce); ok {
					all[byte(v)] = true
					if len(cc.List) == 1 {
						out = append(out, c20clause{byte(v), cc})
					}
				}
			}
		}
		return true
	})
	return out, all, tag
}

type c20store struct {
	field string
	rhs   ast.Expr
	node  *ast.AssignStmt
}

// recStores lists assignments to Record fields under root.
func (e *c20env) recStores(root ast.Node) []c20store {
	var out []c20store
	ast.Inspect(root, func(x ast.Node) bool {
		as, ok := x.(*ast.AssignStmt)
		if !ok || len(as.Lhs) != len(as.Rhs) {
			return true
		}
		for i, l := range as.Lhs {
			if f := e.recField(l); f != "" {
				out = append(out, c20store{f, as.Rhs[i], as})
			}
		}
		return true
	})
	return out
}

func (e *c20env) ruleVerbs() {
	c, m := e.c, e.m
	rule := "verb-field-agree"
	fw := c.NeedFunc(m, "kgo.NewRecordFormatter")
	fr := c.NeedFunc(m, "kgo.RecordReader.parseReadLayout")
	if fw == nil || fr == nil {
		return
	}
	info := e.info
	wcl, wall, _ := e.verbClauses(fw)
	rcl, rall, _ := e.verbClauses(fr)
	n := 0
	// verb sets
	writerOnly := map[byte]bool{'i': true, 'D': true, 'A': true, 'a': true, '[': true, '|': true, ']': true}
	for v := range wall {
		if !rall[v] {
			n++
			c.Check(writerOnly[v], rule, "verb-set %"+string(v), fw.Pos(), m, "documented writer-only verb", "verb %"+string(v)+" is formatted but cannot be read back (not in the reader's verb table, not a documented writer-only verb)")
		}
	}
	for v := range rall {
		if !wall[v] {
			n++
			c.Fail(rule, "verb-set %"+string(v), fr.Pos(), m, "verb %"+string(v)+" is read but never written by the formatter")
		}
	}
	// writer: verb -> source
	wsrc := map[byte]string{}
	wpos := map[byte]token.Pos{}
	for _, cl := range wcl {
		var srcs []string
		ast.Inspect(cl.cc, func(x ast.Node) bool {
			call, ok := x.(*ast.CallExpr)
			if !ok || len(call.Args) != 2 {
				return true
			}
			if v, isVar := calleeObj(info, call).(*types.Var); isVar && !v.IsField() {
				if _, isSig := v.Type().Underlying().(*types.Signature); isSig {
					srcs = append(srcs, e.srcDesc(call.Args[1]))
				}
			}
			return true
		})
		if len(srcs) == 1 {
			wsrc[cl.verb] = srcs[0]
			wpos[cl.verb] = cl.cc.Pos()
		}
	}
	// writer %d: X.UnixNano()/K with X = getTime(r) -> r.Timestamp
	var wScale int64 = -1
	wMilli := ""
	{
		var clause *ast.CaseClause
		ast.Inspect(fw.Decl.Body, func(x ast.Node) bool {
			if cc, ok := x.(*ast.CaseClause); ok && len(cc.List) > 1 {
				for _, ce := range cc.List {
					if v, ok := constInt(info, ce); ok && v == 'd' {
						clause = cc
					}
				}
			}
			return true
		})
		n++
		if clause == nil {
			c.Undecided(rule, "writer %d", fw.Pos(), m, "timestamp clause not found")
		} else {
			var bad []string
			nms := 0
			timeField := ""
			ast.Inspect(clause, func(x ast.Node) bool {
				switch s := x.(type) {
				case *ast.BinaryExpr:
					if s.Op == token.QUO {
						if call, ok := unparen(s.X).(*ast.CallExpr); ok {
							if fn, _ := calleeObj(info, call).(*types.Func); fn != nil && keyOfObj(fn) == "time.Time.UnixNano" {
								nms++
								k, okc := constInt(info, s.Y)
								if !okc || wScale >= 0 && k != wScale {
									bad = append(bad, "millisecond divisors differ: "+exprStr(s))
								}
								wScale = k
								wMilli = exprStr(call.Fun.(*ast.SelectorExpr).X)
							}
						}
					}
				case *ast.CallExpr:
					if fn, _ := calleeObj(info, s).(*types.Func); fn != nil && keyOfObj(fn) == "time.Time.UnixMilli" {
						nms++
						if wScale >= 0 && wScale != 1000000 {
							bad = append(bad, "mixed scales")
						}
						wScale = 1000000
						wMilli = exprStr(s.Fun.(*ast.SelectorExpr).X)
					}
				case *ast.ReturnStmt:
					if len(s.Results) == 1 {
						if f := e.recField(s.Results[0]); f != "" {
							timeField = f
						}
					}
				}
				return true
			})
			if nms == 0 {
				bad = append(bad, "no millisecond timestamp expression found")
			}
			if timeField != "Timestamp" {
				bad = append(bad, "the time source closure does not return r.Timestamp")
			}
			if wScale != 1000000 {
				bad = append(bad, fmt.Sprintf("timestamp is written as UnixNano()/%d, not milliseconds", wScale))
			}
			if len(bad) == 0 {
				wsrc['d'] = "ms:Timestamp"
			}
			c.Check(len(bad) == 0, rule, "writer %d", clause.Pos(), m, "writes "+wMilli+" in milliseconds", strings.Join(bad, "; "))
		}
	}
	// reader
	type rinfo struct {
		sizeVar, bit        types.Object
		valBit, sizeBit     types.Object
		sizeLHS, sizeBitLHS types.Object
		stores              []c20store
		cc                  *ast.CaseClause
	}
	rv := map[byte]*rinfo{}
	for _, cl := range rcl {
		ri := &rinfo{cc: cl.cc, stores: e.recStores(cl.cc)}
		rv[cl.verb] = ri
		for _, st := range cl.cc.Body {
			as, ok := st.(*ast.AssignStmt)
			if !ok || len(as.Lhs) != len(as.Rhs) {
				continue
			}
			for i, l := range as.Lhs {
				lo, ro := c19objOf(info, l), c19objOf(info, as.Rhs[i])
				if lo == nil || ro == nil {
					continue
				}
				lt := lo.Type()
				if pt, ok := lt.Underlying().(*types.Pointer); ok {
					if b, ok := pt.Elem().Underlying().(*types.Basic); ok && b.Kind() == types.Uint64 {
						ri.sizeVar, ri.sizeLHS = ro, lo
					}
				} else if nt, ok := lt.(*types.Named); ok && nt.Obj().Name() == "parseRecordBits" {
					if ri.bit == nil {
						ri.bit, ri.valBit = ro, ro
					} else {
						ri.sizeBit, ri.sizeBitLHS = ro, lo
					}
				}
			}
		}
	}
	constOf := func(o types.Object) int64 {
		if k, ok := o.(*types.Const); ok {
			v, _ := constantInt64(k)
			return v
		}
		return -1
	}
	for _, pair := range [][2]byte{{'T', 't'}, {'K', 'k'}, {'V', 'v'}} {
		up, lowc := pair[0], pair[1]
		cons := "verb %" + string(up) + "/%" + string(lowc)
		n++
		ru, rl := rv[up], rv[lowc]
		if ru == nil || rl == nil || ru.sizeVar == nil || rl.sizeVar == nil || rl.sizeBit == nil || rl.valBit == nil || ru.bit == nil {
			c.Undecided(rule, cons, fr.Pos(), m, "reader clauses for the size/value verb pair not recognised (dst/bit and bit/bitSize/size tuple assignments)")
			continue
		}
		var bad []string
		if ru.sizeVar != rl.sizeVar {
			bad = append(bad, fmt.Sprintf("%%%c stores the size in %s but %%%c reads %s bytes", up, ru.sizeVar.Name(), lowc, rl.sizeVar.Name()))
		}
		if ru.bit != rl.sizeBit {
			bad = append(bad, fmt.Sprintf("%%%c sets bit %s but %%%c tests %s", up, ru.bit.Name(), lowc, rl.sizeBit.Name()))
		}
		if constOf(rl.sizeBit) != constOf(rl.valBit)<<1 || constOf(rl.valBit) <= 0 {
			bad = append(bad, fmt.Sprintf("size bit %s is not value bit %s << 1 (the `bit >> 1` ordering test pairs them)", rl.sizeBit.Name(), rl.valBit.Name()))
		}
		if len(rl.stores) != 1 {
			bad = append(bad, fmt.Sprintf("%%%c stores %d record fields", lowc, len(rl.stores)))
		} else {
			f := rl.stores[0].field
			if wsrc[lowc] != f {
				bad = append(bad, fmt.Sprintf("%%%c is written from %s but read into %s", lowc, wsrc[lowc], f))
			}
			if wsrc[up] != "len:"+f {
				bad = append(bad, fmt.Sprintf("%%%c is written from %s but sizes the read of %s", up, wsrc[up], f))
			}
		}
		c.Check(len(bad) == 0, rule, cons, rl.cc.Pos(), m, "length and value verbs address the same field through the same size variable", strings.Join(bad, "; "))
	}
	// the sizefn closure of t/k/v reads *size under bits.has(bitSize)
	{
		var lits []*ast.FuncLit
		ast.Inspect(fr.Decl.Body, func(x ast.Node) bool {
			if kv, ok := x.(*ast.KeyValueExpr); ok && exprStr(kv.Key) == "sizefn" {
				if l, ok := unparen(kv.Value).(*ast.FuncLit); ok {
					lits = append(lits, l)
				}
			}
			return true
		})
		n++
		good := len(lits) == 1
		if good {
			good = false
			if len(lits[0].Body.List) == 1 {
				if rs, ok := lits[0].Body.List[0].(*ast.ReturnStmt); ok && len(rs.Results) == 1 {
					if st, ok := c19strip(info, rs.Results[0]).(*ast.StarExpr); ok {
						o := c19objOf(info, st.X)
						good = o != nil && rv['t'] != nil && o == rv['t'].sizeLHS
					}
				}
			}
			g := fr.Graph()
			l, _ := g.LocOf(lits[0])
			good = good && factMatches(g.FactsAt(l), func(ft Fact) bool {
				call, ok := unparen(ft.Cond).(*ast.CallExpr)
				if !ok || !ft.Val || len(call.Args) != 1 || rv['t'] == nil {
					return false
				}
				sel, ok := unparen(call.Fun).(*ast.SelectorExpr)
				return ok && sel.Sel.Name == "has" && c19objOf(info, call.Args[0]) == rv['t'].sizeBitLHS
			})
		}
		c.Check(good, rule, "reader sizefn", fr.Pos(), m, "sized text reads int(*size) bytes when the size verb was seen", "the sized read of %t/%k/%v does not read exactly *size bytes under bits.has(bitSize)")
	}
	// plain number verbs
	for _, v := range []byte{'p', 'o', 'e', 'x', 'y', 'd'} {
		cons := "verb %" + string(v)
		n++
		ri := rv[v]
		if ri == nil || len(ri.stores) != 1 {
			c.Undecided(rule, cons, fr.Pos(), m, "reader clause does not store exactly one record field")
			continue
		}
		st := ri.stores[0]
		want := wsrc[v]
		if v == 'd' {
			good, why := e.readerMillis(st.rhs, wScale)
			c.Check(want == "ms:"+st.field && good, rule, cons, st.node.Pos(), m, "milliseconds <-> "+st.field, fmt.Sprintf("%%d is written as %s but read into %s: %s", want, st.field, why))
		} else {
			c.Check(want == st.field, rule, cons, st.node.Pos(), m, want+" <-> "+st.field, fmt.Sprintf("%%%c is written from %s but read into %s", v, want, st.field))
		}
		// (3) signed reinterpretation
		n++
		bad := e.unsignedArith(st.rhs)
		c.Check(bad == "", "signed-reinterpret", cons, st.node.Pos(), m, "raw uint64 converted to a signed type before use",
			"`"+exprStr(st.rhs)+"`: "+bad+": the writer emits the two's complement of a signed value, so values >= 2^63 (negative numbers, e.g. pre-1970 timestamps in 64-bit layouts) read back wrong")
	}
	// headers
	n += e.headers(fw, fr, rule, wsrc, func(v byte) types.Object {
		if rv[v] != nil {
			return rv[v].sizeVar
		}
		return nil
	})
	c.Floor(rule, n, 25)
}

// readerMillis: time.Unix(0, int64(*dst)*K) with K == scale, or time.UnixMilli(int64(*dst)).
func (e *c20env) readerMillis(rhs ast.Expr, scale int64) (bool, string) {
	call, ok := unparen(rhs).(*ast.CallExpr)
	if !ok {
		return false, "not a time constructor call"
	}
	fn, _ := calleeObj(e.info, call).(*types.Func)
	if fn == nil || fn.Pkg() == nil || fn.Pkg().Path() != "time" {
		return false, "not a time constructor call"
	}
	switch fn.Name() {
	case "UnixMilli":
		return scale == 1000000, "scale"
	case "Unix":
		if len(call.Args) != 2 {
			return false, "arity"
		}
		if v, ok := constInt(e.info, call.Args[0]); !ok || v != 0 {
			return true, "" // split form: judged by the sign rule only
		}
		be, ok := unparen(call.Args[1]).(*ast.BinaryExpr)
		if !ok || be.Op != token.MUL {
			return false, "nanoseconds are not millis * constant"
		}
		k, okc := constInt(e.info, be.Y)
		if !okc {
			k, okc = constInt(e.info, be.X)
		}
		if !okc || k != scale {
			return false, fmt.Sprintf("reader multiplies by %d but the writer divides by %d", k, scale)
		}
		return true, ""
	}
	return false, "unrecognised time constructor " + fn.Name()
}

// unsignedArith reports a use of *dst (uint64) that is not directly converted to a signed integer.
func (e *c20env) unsignedArith(rhs ast.Expr) string {
	pm := parentMap(rhs)
	bad := ""
	nstar := 0
	ast.Inspect(rhs, func(x ast.Node) bool {
		st, ok := x.(*ast.StarExpr)
		if !ok {
			return true
		}
		t := e.info.TypeOf(st)
		b, okb := t.Underlying().(*types.Basic)
		if !okb || b.Info()&types.IsUnsigned == 0 {
			return true
		}
		nstar++
		p := pm[st]
		for {
			if pe, ok := p.(*ast.ParenExpr); ok {
				p = pm[pe]
				continue
			}
			break
		}
		call, isCall := p.(*ast.CallExpr)
		if isCall && len(call.Args) == 1 {
			if tv, ok := e.info.Types[call.Fun]; ok && tv.IsType() {
				if tb, ok := tv.Type.Underlying().(*types.Basic); ok && tb.Info()&types.IsInteger != 0 && tb.Info()&types.IsUnsigned == 0 {
					return true
				}
			}
		}
		if rhs == ast.Expr(st) {
			bad = "the raw unsigned value is stored"
		} else {
			bad = "`" + exprStr(st) + "` takes part in unsigned arithmetic (`" + exprStr(p.(ast.Expr)) + "`) before it is reinterpreted as signed"
		}
		return true
	})
	if nstar == 0 && bad == "" {
		return "the parsed number is not used"
	}
	return bad
}

// headers checks the %H/%h pair.
func (e *c20env) headers(fw, fr *Func, rule string, wsrc map[byte]string, sizeVar func(byte) types.Object) int {
	c, m := e.c, e.m
	info := e.info
	n := 0
	// writer %H
	n++
	c.Check(wsrc['H'] == "len:Headers", rule, "verb %H", fw.Pos(), m, "len(r.Headers)", "%H is written from "+wsrc['H']+", not the number of headers")
	// writer %h closure: ranges r.Headers, Key/Value mapping, AppendRecord of the inner formatter
	var wl *ast.RangeStmt
	ast.Inspect(fw.Decl.Body, func(x ast.Node) bool {
		if rs, ok := x.(*ast.RangeStmt); ok && e.recField(rs.X) == "Headers" {
			wl = rs
		}
		return true
	})
	hdrField := func(x ast.Expr) string {
		fv := fieldOfSel(info, c19strip(info, x))
		if fv == nil {
			return ""
		}
		return fv.Name()
	}
	n++
	if wl == nil {
		c.Undecided(rule, "writer %h", fw.Pos(), m, "no loop over r.Headers")
	} else {
		mp := map[string]string{}
		for _, st := range e.recStores(wl.Body) {
			mp[st.field] = hdrField(st.rhs)
		}
		appendInner := len(callsNamed(wl.Body, info, "AppendRecord", false)) == 1
		c.Check(mp["Key"] == "Key" && mp["Value"] == "Value" && len(mp) == 2 && appendInner, rule, "writer %h", wl.Pos(), m, "header Key/Value formatted as record Key/Value",
			fmt.Sprintf("header fields are formatted as %v (expected Key<-Key, Value<-Value through the inner formatter)", mp))
	}
	// reader handoff
	var hl *ast.FuncLit
	ast.Inspect(fr.Decl.Body, func(x ast.Node) bool {
		if kv, ok := x.(*ast.KeyValueExpr); ok && exprStr(kv.Key) == "handoff" {
			hl, _ = unparen(kv.Value).(*ast.FuncLit)
		}
		return true
	})
	n++
	if hl == nil {
		c.Undecided(rule, "reader %h", fr.Pos(), m, "handoff closure not found")
		return n
	}
	var bad []string
	var loop *ast.ForStmt
	ast.Inspect(hl.Body, func(x ast.Node) bool {
		if fs, ok := x.(*ast.ForStmt); ok {
			loop = fs
		}
		return true
	})
	hv := sizeVar('H')
	if loop == nil || loop.Cond == nil || hv == nil || !mentionsObj(loop.Cond, info, hv, false) {
		bad = append(bad, "the header loop is not bounded by the %H variable")
	} else {
		// RecordHeader{Key: string(rec.Key), Value: rec.Value} appended to rec.Headers
		okLit := false
		ast.Inspect(loop.Body, func(x ast.Node) bool {
			cl, ok := x.(*ast.CompositeLit)
			if !ok || len(cl.Elts) != 2 {
				return true
			}
			mp := map[string]string{}
			for _, el := range cl.Elts {
				if kv, ok := el.(*ast.KeyValueExpr); ok {
					mp[exprStr(kv.Key)] = e.recField(c19strip(info, kv.Value))
				}
			}
			if mp["Key"] == "Key" && mp["Value"] == "Value" {
				okLit = true
			} else {
				bad = append(bad, fmt.Sprintf("header is rebuilt as %v", mp))
			}
			return true
		})
		if !okLit {
			bad = append(bad, "no RecordHeader{Key: rec.Key, Value: rec.Value} in the loop")
		}
		if len(callsNamed(loop.Body, info, "next", false)) != 1 {
			bad = append(bad, "the inner reader is not advanced once per header")
		}
		// rec.Key/rec.Value are cleared per header
		cleared := map[string]bool{}
		for _, st := range e.recStores(loop.Body) {
			if c19isNil(info, st.rhs) {
				cleared[st.field] = true
			}
		}
		if !cleared["Key"] || !cleared["Value"] {
			bad = append(bad, "rec.Key/rec.Value are not cleared before each header: an empty header value inherits the previous one")
		}
	}
	// the record's own key/value are restored
	restored := false
	ast.Inspect(hl.Body, func(x ast.Node) bool {
		if d, ok := x.(*ast.DeferStmt); ok {
			fl, _ := unparen(d.Call.Fun).(*ast.FuncLit)
			if fl != nil {
				fs := map[string]bool{}
				for _, st := range e.recStores(fl.Body) {
					fs[st.field] = true
				}
				restored = fs["Key"] && fs["Value"]
			}
		}
		return true
	})
	if !restored {
		bad = append(bad, "the record's own Key/Value are not restored after the headers were read through them")
	}
	c.Check(len(bad) == 0, rule, "reader %h", hl.Pos(), m, "loop bounded by %H, Key/Value mapped back, record key/value restored", strings.Join(bad, "; "))
	return n
}

// ---------- (4) text encodings ----------

func (e *c20env) ruleText() {
	c, m := e.c, e.m
	rule := "text-encoding-agree"
	fw := c.NeedFunc(m, "kgo.NewRecordFormatter")
	fr := c.NeedFunc(m, "kgo.RecordReader.parseReadLayout")
	if fw == nil || fr == nil {
		return
	}
	info := e.info
	// tagless switch with strings.HasPrefix(layout, LIT) cases inside the clause that lists 't'
	table := func(f *Func, varName string) (map[string]ast.Expr, token.Pos, bool) {
		var clause *ast.CaseClause
		ast.Inspect(f.Decl.Body, func(x ast.Node) bool {
			if cc, ok := x.(*ast.CaseClause); ok && len(cc.List) == 3 {
				if v, ok := constInt(info, cc.List[0]); ok && v == 't' {
					clause = cc
				}
			}
			return true
		})
		if clause == nil {
			return nil, f.Pos(), false
		}
		out := map[string]ast.Expr{}
		found := false
		ast.Inspect(clause, func(x ast.Node) bool {
			sw, ok := x.(*ast.SwitchStmt)
			if !ok || sw.Tag != nil {
				return true
			}
			for _, st := range sw.Body.List {
				cc := st.(*ast.CaseClause)
				for _, ce := range cc.List {
					call, ok := unparen(ce).(*ast.CallExpr)
					if !ok || len(call.Args) != 2 {
						continue
					}
					if fn, _ := calleeObj(info, call).(*types.Func); fn == nil || keyOfObj(fn) != "strings.HasPrefix" {
						continue
					}
					s, ok := c20str(info, call.Args[1])
					if !ok {
						continue
					}
					found = true
					name := strings.TrimSuffix(s, "}")
					var val ast.Expr
					for _, b := range cc.Body {
						ast.Inspect(b, func(y ast.Node) bool {
							if as, ok := y.(*ast.AssignStmt); ok {
								for i, l := range as.Lhs {
									if o := c19objOf(info, l); o != nil && o.Name() == varName && len(as.Rhs) > 0 {
										if len(as.Rhs) == len(as.Lhs) {
											val = as.Rhs[i]
										} else {
											val = as.Rhs[0]
										}
									}
								}
							}
							return true
						})
					}
					out[name] = val
				}
			}
			return true
		})
		return out, clause.Pos(), found
	}
	wt, wpos, okw := table(fw, "appendFn")
	rt, rpos, okr := table(fr, "decodeFn")
	if !okw || !okr {
		c.Undecided(rule, "tables", fw.Pos(), m, "text modifier switches not found")
		return
	}
	n := 0
	wOnly := map[string]bool{"base64raw": true, "unpack": true}
	rOnly := map[string]bool{"json": true, "re": true}
	// encUse: the (package, receiver variable) of Encode*/Decode* calls in a named function
	encUse := func(x ast.Expr, verb string) (string, bool) {
		fn, _ := c19objOf(info, x).(*types.Func)
		if fn == nil {
			return "", false
		}
		f := m.Func(keyOfObj(fn))
		if f == nil {
			return "", false
		}
		c.Touch(f)
		uses := map[string]bool{}
		ast.Inspect(f.Decl.Body, func(y ast.Node) bool {
			call, ok := y.(*ast.CallExpr)
			if !ok {
				return true
			}
			cf, _ := calleeObj(info, call).(*types.Func)
			if cf == nil || cf.Pkg() == nil || !strings.HasPrefix(cf.Pkg().Path(), "encoding/") {
				return true
			}
			if cf.Name() != verb {
				if !strings.HasSuffix(cf.Name(), "Len") {
					uses["!"+cf.Name()] = true
				}
				return true
			}
			id := cf.Pkg().Path()
			if sel, ok := unparen(call.Fun).(*ast.SelectorExpr); ok {
				if s := info.Selections[sel]; s != nil { // method on an encoding object
					id += "." + exprStr(sel.X)
				}
			}
			uses[id] = true
			return true
		})
		return strings.Join(sortedKeys(uses), ","), len(uses) == 1
	}
	for _, name := range sortedKeys(wt) {
		cons := "text {" + name + "}"
		n++
		rvx, both := rt[name]
		if !both {
			c.Check(wOnly[name], rule, cons, wpos, m, "documented writer-only modifier", "text modifier `"+name+"` is formatted but not accepted by the reader")
			continue
		}
		wv := wt[name]
		if name == "" {
			// plain: writer appends the bytes, reader installs no decoder
			plain := false
			if fn, _ := c19objOf(info, wv).(*types.Func); fn != nil {
				if f := m.Func(keyOfObj(fn)); f != nil && len(f.Decl.Body.List) == 1 {
					if rs, ok := f.Decl.Body.List[0].(*ast.ReturnStmt); ok && len(rs.Results) == 1 {
						if call, ok := unparen(rs.Results[0]).(*ast.CallExpr); ok && exprStr(call.Fun) == "append" && call.Ellipsis.IsValid() && len(call.Args) == 2 {
							plain = true
						}
					}
				}
			}
			c.Check(plain && rvx == nil, rule, cons, wpos, m, "plain append <-> no decoder", "the empty modifier is not plain bytes on both sides")
			continue
		}
		we, ok1 := encUse(wv, "Encode")
		re, ok2 := encUse(rvx, "Decode")
		c.Check(ok1 && ok2 && we == re, rule, cons, rpos, m, "Encode/Decode of "+we, "writer encodes with {"+we+"} but the reader decodes with {"+re+"}: the text does not decode to the original bytes")
	}
	for _, name := range sortedKeys(rt) {
		if _, ok := wt[name]; !ok {
			n++
			c.Check(rOnly[name], rule, "text {"+name+"}", rpos, m, "documented reader-only modifier", "text modifier `"+name+"` is read but never written")
		}
	}
	c.Floor(rule, n, 7)
}
