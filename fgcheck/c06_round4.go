package main

import (
	"fmt"
	"go/ast"
	"go/token"
	"go/types"
	"sort"
	"strings"

	"golang.org/x/tools/go/cfg"
)

// Round-4 rules of C06.
//
// c06crcPerMagic: ProcessFetchPartition validates every top-level entry with
// one closure (`check`) that reads variables the magic-byte switch sets.  Every
// captured variable that the loop derives from the current entry must be
// (re)assigned on every path of the iteration that reaches the call of the
// closure - a value left over from the previous entry (or from before the loop)
// validates a v0/v1 message with the parameters of a v2 batch or vice versa.
// Plus the value table: magic 0/1 -> CRC-32 IEEE from byte 16, magic 2 ->
// CRC-32C (Castagnoli) from byte 21.
//
// c06pooledEscape: (*decompressor).Decompress returns its scratch buffer to the
// shared pool when it returns; no success result may alias that buffer.

func c06pkgFuncIs(o types.Object, pkgPath, name string) bool {
	return o != nil && o.Pkg() != nil && o.Pkg().Path() == pkgPath && o.Name() == name
}

func c06objOf(info *types.Info, id *ast.Ident) types.Object {
	if o := info.Uses[id]; o != nil {
		return o
	}
	return info.Defs[id]
}

// c06mentions: e mentions obj (deep, including literals).
func c06mentions(info *types.Info, e ast.Node, obj types.Object) bool {
	found := false
	ast.Inspect(e, func(x ast.Node) bool {
		if id, ok := x.(*ast.Ident); ok && c06objOf(info, id) == obj {
			found = true
		}
		return !found
	})
	return found
}

func c06crcPerMagic(c *Ctx, m *Module) {
	rule := "crc-parameters-set-per-message"
	f := c.NeedFunc(m, "kgo.ProcessFetchPartition")
	if f == nil {
		return
	}
	info := f.Info()
	g := f.Graph()
	// the validating closure: the function literal that calls crc32.Checksum
	var lit *ast.FuncLit
	var sum *ast.CallExpr
	ast.Inspect(f.Decl.Body, func(x ast.Node) bool {
		l, ok := x.(*ast.FuncLit)
		if !ok {
			return true
		}
		ast.Inspect(l.Body, func(y ast.Node) bool {
			if call, ok := y.(*ast.CallExpr); ok && c06pkgFuncIs(calleeObj(info, call), "hash/crc32", "Checksum") && len(call.Args) == 2 {
				lit, sum = l, call
			}
			return true
		})
		return true
	})
	if lit == nil {
		c.Undecided(rule, f.Key+"#check-closure", f.Pos(), m, "no function literal computing crc32.Checksum found")
		return
	}
	// the local it is bound to
	var checkVar types.Object
	ast.Inspect(f.Decl.Body, func(x ast.Node) bool {
		switch s := x.(type) {
		case *ast.ValueSpec:
			for i, v := range s.Values {
				if v == ast.Expr(lit) && i < len(s.Names) {
					checkVar = info.Defs[s.Names[i]]
				}
			}
		case *ast.AssignStmt:
			for i, v := range s.Rhs {
				if v == ast.Expr(lit) && i < len(s.Lhs) {
					if id, ok := s.Lhs[i].(*ast.Ident); ok {
						checkVar = c06objOf(info, id)
					}
				}
			}
		}
		return true
	})
	if checkVar == nil {
		c.Undecided(rule, f.Key+"#check-closure", lit.Pos(), m, "the validating closure is not bound to a local variable")
		return
	}
	// free variables of the closure that are locals of the enclosing function
	free := map[types.Object]bool{}
	ast.Inspect(lit.Body, func(x ast.Node) bool {
		id, ok := x.(*ast.Ident)
		if !ok {
			return true
		}
		v, isV := info.Uses[id].(*types.Var)
		if !isV || v.IsField() {
			return true
		}
		if v.Pos() >= f.Decl.Pos() && v.Pos() < f.Decl.End() && !(v.Pos() >= lit.Pos() && v.Pos() < lit.End()) {
			free[v] = true
		}
		return true
	})
	// calls of the closure, each inside a loop
	nCalls := 0
	parents := parentMap(f.Decl.Body)
	for _, call := range findNodes(f.Decl.Body, false, func(x ast.Node) bool {
		cl, ok := x.(*ast.CallExpr)
		if !ok {
			return false
		}
		id, ok := unparen(cl.Fun).(*ast.Ident)
		return ok && c06objOf(info, id) == checkVar
	}) {
		nCalls++
		var loop *ast.ForStmt
		for p := parents[call]; p != nil; p = parents[p] {
			if fs, ok := p.(*ast.ForStmt); ok {
				loop = fs
				break
			}
		}
		if loop == nil {
			c.Undecided(rule, f.Key+": call of the validating closure outside a loop", call.Pos(), m, "expected the per-entry loop")
			continue
		}
		var body *cfg.Block
		for _, b := range g.C.Blocks {
			if b.Stmt == ast.Stmt(loop) && b.Kind == cfg.KindForBody {
				body = b
			}
		}
		if body == nil {
			c.Undecided(rule, f.Key+"#loop-body", loop.Pos(), m, "loop body block not found")
			continue
		}
		// a (re)derivation of v: plain assignment whose right-hand side does not mention v
		derives := func(n ast.Node, v types.Object) bool {
			as, ok := n.(*ast.AssignStmt)
			if !ok || as.Tok != token.ASSIGN {
				return false
			}
			for i, l := range as.Lhs {
				id, ok := unparen(l).(*ast.Ident)
				if !ok || c06objOf(info, id) != v {
					continue
				}
				var rhs ast.Node
				if len(as.Rhs) == len(as.Lhs) {
					rhs = as.Rhs[i]
				} else if len(as.Rhs) == 1 {
					rhs = as.Rhs[0]
				}
				if rhs != nil && !c06mentions(info, rhs, v) {
					return true
				}
			}
			return false
		}
		var vars []types.Object
		for v := range free {
			if containsNode(loop.Body, false, func(n ast.Node) bool { return derives(n, v) }) {
				vars = append(vars, v)
			}
		}
		sort.Slice(vars, func(i, j int) bool { return vars[i].Pos() < vars[j].Pos() })
		for _, v := range vars {
			v := v
			path, found := g.FindPath(Loc{B: int(body.Index), I: -1}, SearchOpts{
				Stop:     func(n ast.Node) bool { return derives(n, v) },
				GoalNode: func(n ast.Node) bool { return containsNode(n, false, func(y ast.Node) bool { return y == call }) },
			})
			c.Check(!found, rule, f.Key+": `"+v.Name()+"` is set for the current entry before it is validated", call.Pos(), m, "assigned on every path of the iteration",
				"`"+v.Name()+"` is read by the validating closure but is not assigned on every path of the iteration ("+pathStr(path)+"): it keeps the value of the previous entry (or its initial value), so after a magic-2 record batch a following magic-0/1 message (or the reverse) is validated with the other format's parameters and a well-formed entry is rejected - the remaining records are not returned")
		}
		c.Floor(rule+"/per-entry-variables", len(vars), 7)
	}
	c.Floor(rule+"/closure-calls", nCalls, 1)

	// value table of the CRC parameters
	vrule := "crc-table-and-offset-per-magic"
	tid, okT := unparen(sum.Args[1]).(*ast.Ident)
	sl, okS := unparen(sum.Args[0]).(*ast.SliceExpr)
	var aid, inID *ast.Ident
	if okS && sl.Low != nil {
		aid, _ = unparen(sl.Low).(*ast.Ident)
		inID, _ = unparen(sl.X).(*ast.Ident)
	}
	if !okT || aid == nil || inID == nil {
		c.Undecided(vrule, f.Key+"#checksum-shape", sum.Pos(), m, "expected crc32.Checksum(data[AT:...], TABLE) with local variables AT and TABLE")
		return
	}
	tVar, aVar, inVar := c06objOf(info, tid), c06objOf(info, aid), c06objOf(info, inID)
	// the magic switch: the switch in the function body with an arm assigning TABLE
	var sw *ast.SwitchStmt
	ast.Inspect(f.Decl.Body, func(x ast.Node) bool {
		if _, isLit := x.(*ast.FuncLit); isLit {
			return false
		}
		s, ok := x.(*ast.SwitchStmt)
		if !ok {
			return true
		}
		for _, cc := range s.Body.List {
			for _, st := range cc.(*ast.CaseClause).Body {
				if as, ok := st.(*ast.AssignStmt); ok {
					for _, l := range as.Lhs {
						if id, ok := l.(*ast.Ident); ok && c06objOf(info, id) == tVar {
							sw = s
						}
					}
				}
			}
		}
		return true
	})
	if sw == nil {
		c.Fail(vrule, f.Key+"#magic-switch", f.Pos(), m, "no switch arm assigns the CRC table: the table does not depend on the entry's magic byte")
		return
	}
	// tag: the byte at index 16 of the data being walked
	tag := sw.Tag
	if id, ok := unparen(tag).(*ast.Ident); ok && sw.Init != nil {
		if as, ok := sw.Init.(*ast.AssignStmt); ok && len(as.Lhs) == 1 && len(as.Rhs) == 1 {
			if l, ok := as.Lhs[0].(*ast.Ident); ok && c06objOf(info, l) == c06objOf(info, id) {
				tag = as.Rhs[0]
			}
		}
	}
	tagOK := false
	if ix, ok := unparen(tag).(*ast.IndexExpr); ok {
		if id, ok := unparen(ix.X).(*ast.Ident); ok && c06objOf(info, id) == inVar {
			if v, isC := constInt(info, ix.Index); isC && v == 16 {
				tagOK = true
			}
		}
	}
	c.Check(tagOK, vrule, f.Key+": magic switch tag", sw.Pos(), m, "the magic byte data[16]", "the format switch is not on byte 16 of the entry (`"+exprStr(tag)+"`)")
	isCastagnoliVar := func(e ast.Expr) bool {
		id, ok := unparen(e).(*ast.Ident)
		if !ok {
			return false
		}
		v, isV := info.Uses[id].(*types.Var)
		if !isV || v.Parent() != f.Pkg.Types.Scope() {
			return false
		}
		good := false
		for _, file := range f.Pkg.Syntax {
			ast.Inspect(file, func(x ast.Node) bool {
				vs, ok := x.(*ast.ValueSpec)
				if !ok {
					return true
				}
				for i, n := range vs.Names {
					if info.Defs[n] == v && i < len(vs.Values) {
						if call, ok := unparen(vs.Values[i]).(*ast.CallExpr); ok && c06pkgFuncIs(calleeObj(info, call), "hash/crc32", "MakeTable") && len(call.Args) == 1 {
							var o types.Object
							switch a := unparen(call.Args[0]).(type) {
							case *ast.SelectorExpr:
								o = info.Uses[a.Sel]
							case *ast.Ident:
								o = info.Uses[a]
							}
							good = c06pkgFuncIs(o, "hash/crc32", "Castagnoli")
						}
					}
				}
				return true
			})
		}
		return good
	}
	isIEEE := func(e ast.Expr) bool {
		sel, ok := unparen(e).(*ast.SelectorExpr)
		return ok && c06pkgFuncIs(info.Uses[sel.Sel], "hash/crc32", "IEEETable")
	}
	nArms := 0
	for _, ccs := range sw.Body.List {
		cc := ccs.(*ast.CaseClause)
		for _, ce := range cc.List {
			magic, isC := constInt(info, ce)
			if !isC {
				c.Undecided(vrule, f.Key+": non-constant magic arm", ce.Pos(), m, exprStr(ce))
				continue
			}
			nArms++
			cons := fmt.Sprintf("%s: magic %d", f.Key, magic)
			var tRHS, aRHS []ast.Expr
			for _, st := range cc.Body {
				as, ok := st.(*ast.AssignStmt)
				if !ok || len(as.Lhs) != len(as.Rhs) {
					continue
				}
				for i, l := range as.Lhs {
					if id, ok := l.(*ast.Ident); ok {
						switch c06objOf(info, id) {
						case tVar:
							tRHS = append(tRHS, as.Rhs[i])
						case aVar:
							aRHS = append(aRHS, as.Rhs[i])
						}
					}
				}
			}
			if len(tRHS) != 1 || len(aRHS) != 1 {
				c.Fail(vrule, cons, cc.Pos(), m, fmt.Sprintf("the arm assigns the CRC table %d time(s) and the CRC start offset %d time(s) (expected one each): the entry is validated with parameters that are not its format's", len(tRHS), len(aRHS)))
				continue
			}
			at, atC := constInt(info, aRHS[0])
			switch magic {
			case 0, 1:
				c.Check(isIEEE(tRHS[0]) && atC && at == 16, vrule, cons, cc.Pos(), m, "crc32.IEEETable from byte 16",
					"legacy messages carry a CRC-32 (IEEE) of the bytes from the magic byte (16) on; the arm uses table `"+exprStr(tRHS[0])+"` from byte `"+exprStr(aRHS[0])+"`: well-formed messages are rejected (or corrupt ones accepted)")
			case 2:
				c.Check(isCastagnoliVar(tRHS[0]) && atC && at == 21, vrule, cons, cc.Pos(), m, "CRC-32C (Castagnoli) from byte 21",
					"record batches carry a CRC-32C (Castagnoli) of the bytes from the attributes (21) on; the arm uses table `"+exprStr(tRHS[0])+"` from byte `"+exprStr(aRHS[0])+"`")
			default:
				c.Undecided(vrule, cons, cc.Pos(), m, "no CRC definition known for this magic")
			}
		}
	}
	c.Floor(vrule+"/arms", nArms, 3)
}

// ---------------------------------------------------------------------------

type c06asg struct {
	node ast.Node // the assignment statement / value spec
	rhs  ast.Expr // nil: declared without a value
}

// c06assigns lists every definition of a local (deep: also inside literals).
func c06assigns(f *Func, obj types.Object) []c06asg {
	info := f.Info()
	var out []c06asg
	ast.Inspect(f.Decl.Body, func(x ast.Node) bool {
		switch s := x.(type) {
		case *ast.AssignStmt:
			for i, l := range s.Lhs {
				id, ok := l.(*ast.Ident)
				if !ok || c06objOf(info, id) != obj {
					continue
				}
				switch {
				case len(s.Rhs) == len(s.Lhs):
					out = append(out, c06asg{s, s.Rhs[i]})
				case len(s.Rhs) == 1:
					out = append(out, c06asg{s, s.Rhs[0]})
				}
			}
		case *ast.ValueSpec:
			for i, id := range s.Names {
				if info.Defs[id] == obj {
					if i < len(s.Values) {
						out = append(out, c06asg{s, s.Values[i]})
					} else if len(s.Values) == 1 {
						out = append(out, c06asg{s, s.Values[0]})
					} else {
						out = append(out, c06asg{s, nil})
					}
				}
			}
		case *ast.RangeStmt:
			for _, l := range []ast.Expr{s.Key, s.Value} {
				if id, ok := l.(*ast.Ident); ok && c06objOf(info, id) == obj {
					out = append(out, c06asg{s, s.X})
				}
			}
		}
		return true
	})
	return out
}

func c06isByteSlice(t types.Type) bool {
	if t == nil {
		return false
	}
	s, ok := t.Underlying().(*types.Slice)
	if !ok {
		return false
	}
	b, ok := s.Elem().Underlying().(*types.Basic)
	return ok && b.Kind() == types.Byte
}

func c06isPoolMethod(o types.Object, name string) bool {
	fn, ok := o.(*types.Func)
	if !ok || fn.Name() != name || fn.Pkg() == nil || fn.Pkg().Path() != "sync" {
		return false
	}
	sig := fn.Type().(*types.Signature)
	return sig.Recv() != nil && strings.HasSuffix(sig.Recv().Type().String(), "sync.Pool")
}

func c06pooledEscape(c *Ctx, m *Module) {
	rule := "decompress-result-not-aliasing-pooled-buffer"
	prule := "decompress-pooled-buffer-provenance"
	f := c.NeedFunc(m, "kgo.decompressor.Decompress")
	if f == nil {
		return
	}
	info := f.Info()
	locOf := func(n ast.Node) (*Graph, Loc, bool) {
		g := f.GraphFor(n)
		l, ok := g.LocOf(n)
		return g, l, ok
	}
	// pooled locals: identifiers handed to (*sync.Pool).Put in this function
	pooled := map[types.Object][]*ast.CallExpr{}
	ast.Inspect(f.Decl.Body, func(x ast.Node) bool {
		call, ok := x.(*ast.CallExpr)
		if !ok || len(call.Args) != 1 || !c06isPoolMethod(calleeObj(info, call), "Put") {
			return true
		}
		if id, ok := unparen(call.Args[0]).(*ast.Ident); ok {
			if v, isV := c06objOf(info, id).(*types.Var); isV {
				pooled[v] = append(pooled[v], call)
			}
		} else {
			c.Undecided(prule, f.Key+": "+exprStr(call), call.Pos(), m, "Put of something other than a local variable")
		}
		return true
	})
	c.Floor(prule+"/pooled-locals", len(pooled), 1)
	isPoolGet := func(e ast.Expr) bool {
		e = unparen(e)
		if ta, ok := e.(*ast.TypeAssertExpr); ok {
			e = unparen(ta.X)
		}
		call, ok := e.(*ast.CallExpr)
		return ok && c06isPoolMethod(calleeObj(info, call), "Get")
	}
	isNilFact := func(facts []Fact, p types.Object) bool {
		return factMatches(facts, func(ft Fact) bool {
			if ft.Tag != nil || !ft.Val {
				return false
			}
			be, ok := unparen(ft.Cond).(*ast.BinaryExpr)
			if !ok || be.Op != token.EQL {
				return false
			}
			x, y := unparen(be.X), unparen(be.Y)
			if id, ok := y.(*ast.Ident); !ok || id.Name != "nil" {
				return false
			}
			id, ok := x.(*ast.Ident)
			return ok && c06objOf(info, id) == p
		})
	}
	// per pooled local with a private (not pool-owned) source: the provenance discipline
	type privInfo struct {
		priv  []c06asg              // private assignments
		pool  []c06asg              // pool assignments
		flags map[types.Object]bool // bool locals that imply "p is private"
		bad   bool
	}
	pinfo := map[types.Object]*privInfo{}
	var pkeys []types.Object
	for p := range pooled {
		pkeys = append(pkeys, p)
	}
	sort.Slice(pkeys, func(i, j int) bool { return pkeys[i].Pos() < pkeys[j].Pos() })
	for _, p := range pkeys {
		pi := &privInfo{flags: map[types.Object]bool{}}
		pinfo[p] = pi
		for _, a := range c06assigns(f, p) {
			switch {
			case a.rhs == nil:
			case isPoolGet(a.rhs):
				pi.pool = append(pi.pool, a)
			default:
				if call, ok := unparen(a.rhs).(*ast.CallExpr); ok {
					if fn, isF := calleeObj(info, call).(*types.Func); isF && fn.Type().(*types.Signature).Recv() == nil {
						pi.priv = append(pi.priv, a) // constructor call: a fresh, caller-owned object
						continue
					}
				}
				pi.bad = true
				c.Undecided(prule, f.Key+": "+p.Name()+" = "+exprStr(a.rhs), a.node.Pos(), m, "source of the pooled local is neither a pool Get nor a constructor call")
			}
		}
		if len(pi.priv) == 0 {
			continue
		}
		// the pool Get and every Put are taken only when no private object was installed
		for _, a := range pi.pool {
			g, l, _ := locOf(a.node)
			c.Check(isNilFact(g.FactsAt(l), p), prule, f.Key+": "+p.Name()+" taken from the shared pool only when unset", a.node.Pos(), m, "under "+p.Name()+" == nil",
				"the shared-pool Get of `"+p.Name()+"` is not under `"+p.Name()+" == nil`: it can replace (or be replaced by) a caller-owned buffer while results alias it")
		}
		for _, put := range pooled[p] {
			g, l, _ := locOf(put)
			c.Check(isNilFact(g.FactsAt(l), p), prule, f.Key+": "+exprStr(put)+" only for the pool-owned buffer", put.Pos(), m, "under "+p.Name()+" == nil",
				"`"+exprStr(put)+"` is not restricted to the path that took the buffer from the shared pool: a caller-owned buffer that results alias is handed to the shared pool")
		}
	}
	// privacy flags: bool locals whose every definition is `false`/zero or `true` right after a private assignment of p in the same literal,
	// with the statement holding that literal dominating every pool assignment of p
	privateIn := func(p types.Object, g *Graph, l Loc) bool {
		pi := pinfo[p]
		if pi == nil || pi.bad {
			return false
		}
		dom := false
		for _, a := range pi.priv {
			if ga, la, ok := locOf(a.node); ok && ga == g && (g.Dominates(la, l) || la == l) {
				dom = true
			}
		}
		if !dom {
			return false
		}
		for _, a := range pi.pool {
			if ga, _, _ := locOf(a.node); ga == g {
				return false
			}
		}
		return true
	}
	ast.Inspect(f.Decl.Body, func(x ast.Node) bool {
		id, ok := x.(*ast.Ident)
		if !ok {
			return true
		}
		u, isV := info.Defs[id].(*types.Var)
		if !isV {
			return true
		}
		if b, ok := u.Type().Underlying().(*types.Basic); !ok || b.Kind() != types.Bool {
			return true
		}
		for _, p := range pkeys {
			pi := pinfo[p]
			if len(pi.priv) == 0 || pi.bad {
				continue
			}
			good, nTrue := true, 0
			for _, a := range c06assigns(f, u) {
				if a.rhs == nil {
					continue
				}
				v, isC := constBool(info, a.rhs)
				if !isC {
					good = false
					break
				}
				if !v {
					continue
				}
				nTrue++
				g, l, ok := locOf(a.node)
				lit := innermostLit(f, a.node)
				if !ok || lit == nil || !privateIn(p, g, l) {
					good = false
					break
				}
				// the literal runs (synchronously) in a statement that precedes every pool assignment
				fg := f.Graph()
				ll, okl := fg.LocOf(lit)
				for _, pa := range pi.pool {
					pl, okp := fg.LocOf(pa.node)
					if !okl || !okp || !fg.Dominates(ll, pl) {
						good = false
					}
				}
			}
			if good && nTrue > 0 {
				pi.flags[u] = true
			}
		}
		return true
	})
	flagFact := func(p types.Object, g *Graph, l Loc) bool {
		pi := pinfo[p]
		if pi == nil || g != f.Graph() {
			return false
		}
		return factMatches(g.FactsAt(l), func(ft Fact) bool {
			id, ok := unparen(ft.Cond).(*ast.Ident)
			return ok && ft.Tag == nil && ft.Val && pi.flags[c06objOf(info, id)]
		})
	}
	for _, p := range pkeys {
		if pi := pinfo[p]; len(pi.priv) > 0 {
			var names []string
			for u := range pi.flags {
				names = append(names, u.Name())
			}
			sort.Strings(names)
			c.Check(len(names) > 0, prule, f.Key+": flag implying a caller-owned `"+p.Name()+"`", f.Pos(), m, strings.Join(names, ","),
				"no boolean local is set exactly where `"+p.Name()+"` is replaced by a caller-owned buffer (true only right after that assignment, in a literal that runs before the shared-pool Get): results that alias `"+p.Name()+"` cannot be told apart from results that alias the shared pool's buffer")
		}
	}

	// alias level of an expression: 0 fresh / unrelated, 1 aliases a pooled local only while it is caller-owned, 2 may alias the shared pool's buffer
	type lv struct {
		n   int
		why string
		p   types.Object // the pooled local a level-2 result may alias
	}
	max := func(a, b lv) lv {
		if b.n > a.n {
			return b
		}
		return a
	}
	visiting := map[types.Object]bool{}
	var level func(e ast.Expr, g *Graph, l Loc) lv
	base := func(p types.Object, e ast.Expr, g *Graph, l Loc) lv {
		if privateIn(p, g, l) || flagFact(p, g, l) {
			return lv{n: 1}
		}
		return lv{2, "`" + exprStr(e) + "` at " + m.Position(e.Pos()), p}
	}
	litLevel := func(fl *ast.FuncLit) lv {
		out := lv{}
		lg := f.LitGraph(fl)
		ast.Inspect(fl.Body, func(x ast.Node) bool {
			if inner, ok := x.(*ast.FuncLit); ok && inner != fl {
				return false
			}
			if r, ok := x.(*ast.ReturnStmt); ok {
				l, _ := lg.LocOf(r)
				for _, res := range r.Results {
					out = max(out, level(res, lg, l))
				}
			}
			return true
		})
		return out
	}
	level = func(e ast.Expr, g *Graph, l Loc) lv {
		e = unparen(e)
		switch x := e.(type) {
		case nil:
			return lv{}
		case *ast.BasicLit, *ast.CompositeLit:
			return lv{}
		case *ast.FuncLit:
			return litLevel(x)
		case *ast.SliceExpr:
			return level(x.X, g, l)
		case *ast.StarExpr:
			return level(x.X, g, l)
		case *ast.TypeAssertExpr:
			return level(x.X, g, l)
		case *ast.SelectorExpr:
			// method value P.M of a pooled local
			if id, ok := unparen(x.X).(*ast.Ident); ok {
				if p := c06objOf(info, id); pooled[p] != nil {
					if sel := info.Selections[x]; sel != nil && sel.Kind() == types.MethodVal {
						if sig, ok := sel.Type().(*types.Signature); ok && sig.Results().Len() > 0 && c06isByteSlice(sig.Results().At(0).Type()) {
							return base(p, e, g, l)
						}
						return lv{}
					}
				}
			}
		case *ast.Ident:
			if x.Name == "nil" {
				return lv{}
			}
			v, isV := c06objOf(info, x).(*types.Var)
			if !isV || v.Parent() == nil || v.Pos() < f.Decl.Pos() || v.Pos() >= f.Decl.End() {
				return lv{}
			}
			if pooled[v] != nil {
				return base(v, e, g, l) // the pooled object itself
			}
			if visiting[v] {
				return lv{}
			}
			visiting[v] = true
			defer delete(visiting, v)
			out := lv{}
			for _, a := range c06assigns(f, v) {
				if a.rhs == nil {
					continue
				}
				ga, la, ok := locOf(a.node)
				if !ok {
					return lv{2, "definition of `" + v.Name() + "` not located", nil}
				}
				out = max(out, level(a.rhs, ga, la))
			}
			return out
		case *ast.CallExpr:
			if tv, ok := info.Types[x.Fun]; ok && tv.IsType() { // conversion
				if len(x.Args) == 1 {
					if at := info.Types[x.Args[0]].Type; at != nil {
						if _, isSlice := at.Underlying().(*types.Slice); isSlice {
							return level(x.Args[0], g, l)
						}
					}
				}
				return lv{}
			}
			callee := calleeObj(info, x)
			if b, isB := callee.(*types.Builtin); isB {
				if b.Name() == "append" && len(x.Args) > 0 {
					return level(x.Args[0], g, l) // the other arguments are copied
				}
				return lv{}
			}
			if c06pkgFuncIs(callee, "slices", "Clone") || c06pkgFuncIs(callee, "bytes", "Clone") {
				return lv{}
			}
			// call of a method of a pooled local yielding bytes / call through a local func variable
			if sel, ok := unparen(x.Fun).(*ast.SelectorExpr); ok {
				if id, ok := unparen(sel.X).(*ast.Ident); ok && pooled[c06objOf(info, id)] != nil {
					if tv := info.Types[x]; c06isByteSlice(tv.Type) {
						return base(c06objOf(info, id), e, g, l)
					}
				}
			}
			if id, ok := unparen(x.Fun).(*ast.Ident); ok {
				if v, isV := callee.(*types.Var); isV && !v.IsField() {
					return level(id, g, l)
				}
			}
			// any other callee may return (a slice of) a slice argument
			out := lv{}
			for _, a := range x.Args {
				if at := info.Types[a].Type; at != nil {
					if _, isSlice := at.Underlying().(*types.Slice); isSlice {
						out = max(out, level(a, g, l))
					}
				}
			}
			return out
		}
		// anything else: conservative when it mentions a pooled local
		for _, p := range pkeys {
			if c06mentions(info, e, p) {
				return base(p, e, g, l)
			}
		}
		return lv{}
	}
	fg := f.Graph()
	nRet, nDerived, k := 0, 0, 0
	for _, rn := range findNodes(f.Decl.Body, false, func(x ast.Node) bool { _, ok := x.(*ast.ReturnStmt); return ok }) {
		r := rn.(*ast.ReturnStmt)
		if len(r.Results) == 0 {
			continue
		}
		if id, ok := unparen(r.Results[0]).(*ast.Ident); ok && id.Name == "nil" {
			continue
		}
		nRet++
		l, _ := fg.LocOf(r)
		res := level(r.Results[0], fg, l)
		if res.n == 2 {
			// the return itself is on a path where the aliased pooled local is caller-owned
			if res.p != nil && flagFact(res.p, fg, l) {
				res = lv{n: 1}
			}
		}
		if res.n >= 1 {
			nDerived++
		}
		c.Check(res.n < 2, rule, f.Key+": "+nodeStr(r)+"#"+ordinal(&k), r.Pos(), m, map[int]string{0: "fresh or unrelated memory", 1: "aliases the scratch buffer only while it is caller-owned"}[res.n],
			"the returned slice may alias the buffer taken from the shared byteBuffers pool ("+res.why+"), which is Put back when Decompress returns: the next Decompress call reuses that buffer and overwrites the key/value/header bytes of records already returned")
	}
	c.Floor(rule+"/success-returns", nRet, 8)
	c.Floor(rule+"/buffer-derived-returns", nDerived, 3)
}
