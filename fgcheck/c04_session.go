package main

import (
	"fmt"
	"go/ast"
	"go/types"
	"strings"

	"golang.org/x/tools/go/cfg"
)

// The client-side mirror of the broker's incremental fetch session
// (fetchSession.used) decides which partitions AppendTo leaves OUT of a
// request (hasPartitionAt). If the mirror claims the broker has a partition
// that the broker was told to forget, the partition is omitted from every
// later request and never fetched again. Necessary structural conditions:
// every acknowledged request's topics AND forgotten topics are applied to
// the mirror on every path on which the session is alive.

func (x *c04x) sessionMirror() {
	c, m := x.c, x.m
	rule := "session-mirror-commit"
	f := x.fn("kgo.fetchSession.commitFromReq")
	if f == nil {
		return
	}
	info := f.Info()
	g := f.Graph()
	if len(f.Decl.Type.Params.List) != 2 || len(f.Decl.Type.Params.List[0].Names) != 1 || len(f.Decl.Type.Params.List[1].Names) != 1 {
		c.Undecided(rule, f.Key+"#params", f.Pos(), m, "commitFromReq(topics, forgotten) signature changed")
		return
	}
	pTopics := info.Defs[f.Decl.Type.Params.List[0].Names[0]]
	pForgot := info.Defs[f.Decl.Type.Params.List[1].Names[0]]
	used := fieldMust(c, m, "fetchSession", "used")
	killed := fieldMust(c, m, "fetchSession", "killed")
	if used == nil || killed == nil {
		return
	}
	var rsTopics, rsForgot *ast.RangeStmt
	ast.Inspect(f.Decl.Body, func(y ast.Node) bool {
		if rs, ok := y.(*ast.RangeStmt); ok {
			switch c04obj(info, rs.X) {
			case pTopics:
				rsTopics = rs
			case pForgot:
				rsForgot = rs
			}
		}
		return true
	})
	if rsTopics == nil || rsForgot == nil || rsTopics.Value == nil || rsForgot.Value == nil {
		c.Fail(rule, f.Key+"#loops", f.Pos(), m, "commitFromReq does not range over both the request's topics and its forgotten topics: the session mirror is not updated with what the broker was told")
		return
	}
	// alive: the only way around either loop is the killed test
	// ... and the list in question is non-empty (a fast path for an empty list changes nothing)
	var nonEmpty types.Object
	alive := func(from *cfg.Block, k int, to *cfg.Block) bool {
		cond, tag, ok := g.condOf(from)
		if !ok || tag != nil {
			return true
		}
		env := &triEnv{f: f, atom: func(e ast.Expr) (tri, bool) {
			if sameField(fieldOfSel(info, e), killed) {
				return triF, true
			}
			if be, ok := unparen(e).(*ast.BinaryExpr); ok && nonEmpty != nil {
				if call, ok := unparen(be.X).(*ast.CallExpr); ok && exprStr(call.Fun) == "len" && len(call.Args) == 1 && c04obj(info, call.Args[0]) == nonEmpty {
					if v, isC := constInt(info, be.Y); isC && v == 0 {
						switch be.Op.String() {
						case "==", "<=":
							return triF, true
						case ">", "!=":
							return triT, true
						}
					}
				}
			}
			return triU, false
		}}
		switch env.eval(cond) {
		case triT:
			return k != 1
		case triF:
			return k != 0
		}
		return true
	}
	for _, lp := range []struct {
		rs   *ast.RangeStmt
		what string
		why  string
	}{
		{rsTopics, "topics", "partitions sent in an acknowledged request are not recorded: they are re-sent every time (harmless) or, after a later forget, the mirror diverges"},
		{rsForgot, "forgotten topics", "the ForgottenTopics of an acknowledged request (e.g. a request that carried no partition updates because the only change was a paused or moved partition) are not removed from the mirror: the mirror keeps claiming the broker has the partition at its old offset, AppendTo omits it from every later request when it resumes at that offset, the broker (which did forget it) never serves it, and the partition is silently never consumed again"},
	} {
		nonEmpty = c04obj(info, lp.rs.X)
		p, found := g.FindPath(Loc{-1, 0}, SearchOpts{
			Stop:     func(n ast.Node) bool { return n == ast.Node(lp.rs.X) },
			GoalExit: func(k ExitKind, _ ast.Node) bool { return k != ExitPanic },
			EdgeOK:   alive,
		})
		c.Check(!found, rule, f.Key+"#applies-"+strings.ReplaceAll(lp.what, " ", "-"), lp.rs.Pos(), m, "on every path of a live session a non-empty list of "+lp.what+" is applied to the mirror",
			"with the session alive (!s.killed) commitFromReq can return without walking the request's "+lp.what+" ("+pathStr(p)+"): "+lp.why)
	}
	// per forgotten topic: every partition is deleted from the mirror's topic entry, skipped only for an unnamed / unknown topic
	x.mirrorInner(f, g, rsForgot, used, true)
	x.mirrorInner(f, g, rsTopics, used, false)
	// the call site: fetch commits the request's own snapshots once the response is accepted
	ff := x.fetchInfo()
	if ff != nil {
		calls := c04calls(ff.f.Decl.Body, ff.info, "kgo.fetchSession.commitFromReq")
		ok := false
		var pos = ff.f.Pos()
		for _, call := range calls {
			pos = call.Pos()
			if len(call.Args) == 2 {
				a0, ok0 := unparen(call.Args[0]).(*ast.SelectorExpr)
				a1, ok1 := unparen(call.Args[1]).(*ast.SelectorExpr)
				if ok0 && ok1 && c04obj(ff.info, a0.X) == ff.req && c04obj(ff.info, a1.X) == ff.req && a0.Sel.Name == "committedTopics" && a1.Sel.Name == "committedForgotten" {
					l, _ := ff.g.LocOf(call)
					// on the accepted-response path: after the response was processed
					ok = ff.g.Dominates(ff.hLoc, l)
				}
			}
		}
		c.Check(ok && len(calls) == 1, rule, ff.f.Key+"#commits-request", pos, m, "fetch applies (req.committedTopics, req.committedForgotten) after the response was accepted", "fetch does not commit exactly the request's committedTopics / committedForgotten snapshots to the session mirror")
	}
	// AppendTo snapshots what was serialised, on every path to its return
	if af := x.fn("kgo.fetchRequest.AppendTo"); af != nil {
		ainfo := af.Info()
		ag := af.Graph()
		for _, pair := range [][2]string{{"committedTopics", "Topics"}, {"committedForgotten", "ForgottenTopics"}} {
			isSnap := func(n ast.Node) bool {
				as, ok := n.(*ast.AssignStmt)
				if !ok || len(as.Lhs) != 1 || len(as.Rhs) != 1 {
					return false
				}
				l, okl := unparen(as.Lhs[0]).(*ast.SelectorExpr)
				r, okr := unparen(as.Rhs[0]).(*ast.SelectorExpr)
				return okl && okr && l.Sel.Name == pair[0] && r.Sel.Name == pair[1] && c04namedType(ainfo, r.X) == "FetchRequest"
			}
			p, found := ag.FindPath(Loc{-1, 0}, SearchOpts{Stop: isSnap, GoalExit: func(k ExitKind, _ ast.Node) bool { return k != ExitPanic }})
			c.Check(!found, rule, af.Key+"#snapshot-"+pair[0], af.Pos(), m, "f."+pair[0]+" = req."+pair[1]+" on every path", "AppendTo can return without snapshotting req."+pair[1]+" ("+pathStr(p)+"): fetch commits a stale snapshot to the session mirror")
		}
	}
	// writers of the mirror
	n := 0
	for _, st := range StoreSites(x.funcs, used) {
		n++
		cons := st.Fn.Key + ": " + nodeStr(st.Node)
		switch st.Fn.Key {
		case "kgo.fetchSession.kill", "kgo.fetchSession.reset":
			c.Check(exprStr(st.RHS) == "nil", rule+"#writers", cons, st.Node.Pos(), m, "dropped with the session", "kill / reset does not drop the mirror")
		case "kgo.fetchSession.commitFromReq", "kgo.fetchSession.lookupTopic":
			c.OK(rule+"#writers", cons, st.Node.Pos(), m, "lazy allocation")
		default:
			c.Fail(rule+"#writers", cons, st.Node.Pos(), m, "fetchSession.used is replaced outside kill / reset / commitFromReq / lookupTopic")
		}
	}
	c.Floor(rule+"#writers", n, 4)
}

// mirrorInner checks the per-topic body of one of commitFromReq's loops.
func (x *c04x) mirrorInner(f *Func, g *Graph, outer *ast.RangeStmt, used *types.Var, forget bool) {
	c, m := x.c, x.m
	rule := "session-mirror-commit"
	info := f.Info()
	what := map[bool]string{true: "forgotten", false: "topics"}[forget]
	ov := c04obj(info, outer.Value)
	// the inner loop over <outer value>.Partitions
	var inner *ast.RangeStmt
	ast.Inspect(outer.Body, func(y ast.Node) bool {
		if rs, ok := y.(*ast.RangeStmt); ok && inner == nil {
			if sel, ok := unparen(rs.X).(*ast.SelectorExpr); ok && sel.Sel.Name == "Partitions" && c04obj(info, sel.X) == ov {
				inner = rs
			}
		}
		return true
	})
	cons := f.Key + "#" + what
	if inner == nil || inner.Value == nil {
		c.Fail(rule, cons+"-partitions", outer.Pos(), m, "no loop over the "+what+" entry's Partitions")
		return
	}
	iv := c04obj(info, inner.Value)
	// the per-topic map is s.used[topic]
	isTopicEntry := func(e ast.Expr) bool {
		d := c04defs(f, c04obj(info, e))
		for _, dd := range d {
			if dd.rhs == nil {
				continue
			}
			if ix, ok := unparen(dd.rhs).(*ast.IndexExpr); ok && sameField(fieldOfSel(info, ix.X), used) {
				return true
			}
		}
		return false
	}
	event := func(n ast.Node) bool {
		if forget {
			return containsNode(n, false, func(y ast.Node) bool {
				call, ok := y.(*ast.CallExpr)
				return ok && exprStr(call.Fun) == "delete" && len(call.Args) == 2 && isTopicEntry(call.Args[0]) && c04obj(info, call.Args[1]) == iv
			})
		}
		as, ok := n.(*ast.AssignStmt)
		if !ok || len(as.Lhs) != 1 {
			return false
		}
		ix, ok := as.Lhs[0].(*ast.IndexExpr)
		if !ok || !isTopicEntry(ix.X) {
			return false
		}
		ks, ok := unparen(ix.Index).(*ast.SelectorExpr)
		if !ok || ks.Sel.Name != "Partition" || c04obj(info, ks.X) != iv {
			return false
		}
		cl, ok := as.Rhs[0].(*ast.CompositeLit)
		if !ok || len(cl.Elts) != 2 {
			return false
		}
		return c04str(cl.Elts[0]) == iv.Name()+".FetchOffset" && c04str(cl.Elts[1]) == iv.Name()+".CurrentLeaderEpoch"
	}
	per := c04perIter(g, inner, event)
	c.Check(per == 2, rule, cons+"-each-partition", inner.Pos(), m, map[bool]string{true: "every forgotten partition is deleted from the mirror's topic entry", false: "every sent partition is recorded at {FetchOffset, CurrentLeaderEpoch}"}[forget],
		fmt.Sprintf("per %s partition the mirror update happens %s times (want exactly once)", what, c04cntStr(per)))
	// the inner loop is skipped only for an unnamed topic or (forget) a topic the mirror does not hold
	body := c04rangeBody(g, outer)
	skipOK := func(from *cfg.Block, k int, to *cfg.Block) bool {
		cond, tag, ok := g.condOf(from)
		if !ok || tag != nil || k != 0 {
			return true
		}
		s := c04str(cond)
		if be, isBe := unparen(cond).(*ast.BinaryExpr); isBe && strings.HasSuffix(s, `==""`) {
			if d := c04single(f, c04obj(info, be.X)); d != nil {
				if sel, ok := unparen(d.rhs).(*ast.SelectorExpr); ok && sel.Sel.Name == "Topic" && c04obj(info, sel.X) == ov {
					return false
				}
			}
		}
		if forget {
			if u, ok := unparen(cond).(*ast.UnaryExpr); ok && u.Op.String() == "!" {
				if d := c04single(f, c04obj(info, u.X)); d != nil && d.idx == 1 {
					if ix, ok := unparen(d.rhs).(*ast.IndexExpr); ok && sameField(fieldOfSel(info, ix.X), used) {
						return false
					}
				}
			}
		}
		return true
	}
	var loopHead *cfg.Block
	for _, b := range g.C.Blocks {
		if b.Kind == cfg.KindRangeLoop && b.Stmt == ast.Stmt(outer) {
			loopHead = b
		}
	}
	if body < 0 || loopHead == nil {
		c.Undecided(rule, cons+"-not-skipped", outer.Pos(), m, "loop blocks not found")
		return
	}
	p, found := g.FindPath(Loc{body, -1}, SearchOpts{
		Stop:      func(n ast.Node) bool { return n == ast.Node(inner.X) },
		GoalBlock: func(b *cfg.Block) bool { return b == loopHead },
		GoalExit:  func(ExitKind, ast.Node) bool { return true },
		EdgeOK:    skipOK,
	})
	c.Check(!found, rule, cons+"-not-skipped", outer.Pos(), m, "an entry is skipped only when its topic is unnamed"+map[bool]string{true: " or absent from the mirror", false: ""}[forget],
		"a "+what+" entry of the request can be skipped for another reason ("+pathStr(p)+"): the mirror no longer matches what the broker was told")
}
