package main

import (
	"bufio"
	"encoding/json"
	"fmt"
	"go/token"
	"os"
	"path/filepath"
	"sort"
	"strings"
	"time"
)

// Ob is one obligation: a rule applied to one construct.
type Ob struct {
	Rule      string `json:"rule"`
	Construct string `json:"construct"`
	Pos       string `json:"pos"`
	Verdict   string `json:"verdict"` // discharged | violated | undecided | known
	Detail    string `json:"detail,omitempty"`
	Config    string `json:"config,omitempty"` // build configuration (thorough tier re-runs under extra ones)
}

func (o Ob) Key() string { return o.Rule + "|" + o.Construct }

// Prop describes one property check.
type Prop struct {
	ID          string
	Level       string // other | proof | translation_validation
	Technique   string
	Explanation string   // rules applied
	NotDecided  string   // what the check does not decide
	Assumptions []string // trusted base
	LevelText   string   // MANIFEST level_claimed.text
	DesignRef   string
	Run         func(c *Ctx)
}

var registry = map[string]*Prop{}

var evidenceDir string

// thoroughConfigs are the extra (tags, GOARCH) configurations of the thorough tier.
var thoroughConfigs = [][2]string{{"", "386"}, {"synctests", ""}}

func register(p *Prop) { registry[p.ID] = p }

// Ctx accumulates the result of one property run.
type Ctx struct {
	Prop     *Prop
	Tier     string
	Obs      []Ob
	Floors   []string
	Mods     []*Module
	Configs  []string
	funcs    map[string]bool
	ruleCnt  map[string]int
	extra    map[string]any
	cur      *Module
	fatalErr []string
	// build-configuration override of the thorough tier
	ovTags, ovArch string
}

func (c *Ctx) thorough() bool { return c.Tier == "thorough" }

// Load loads a module for the current configuration and records it.
func (c *Ctx) Load(rel string) *Module { return c.LoadCfg(rel, "", "") }

func (c *Ctx) LoadCfg(rel, tags, goarch string) *Module {
	if tags == "" && goarch == "" {
		tags, goarch = c.ovTags, c.ovArch
	}
	m, err := LoadModule(rel, tags, goarch)
	if err != nil {
		c.Undecided("load", rel, token.NoPos, nil, err.Error())
		return nil
	}
	seen := false
	for _, x := range c.Mods {
		if x == m {
			seen = true
		}
	}
	if !seen {
		c.Mods = append(c.Mods, m)
		cfg := rel
		if cfg == "" {
			cfg = "(root)"
		}
		cfg += " tags=" + tags + " goarch=" + goarch
		c.Configs = append(c.Configs, cfg)
	}
	c.cur = m
	return m
}

func (c *Ctx) add(o Ob) {
	if c.ovTags != "" || c.ovArch != "" {
		o.Config = strings.TrimSpace("tags=" + c.ovTags + " goarch=" + c.ovArch)
	}
	c.Obs = append(c.Obs, o)
	c.ruleCnt[o.Rule]++
}

func (c *Ctx) posStr(m *Module, p token.Pos) string {
	if m == nil {
		m = c.cur
	}
	if m == nil {
		return "-"
	}
	return m.Position(p)
}

// OK records a discharged obligation.
func (c *Ctx) OK(rule, construct string, pos token.Pos, m *Module, detail string) {
	c.add(Ob{Rule: rule, Construct: construct, Pos: c.posStr(m, pos), Verdict: "discharged", Detail: detail})
}

// Fail records a violated obligation.
func (c *Ctx) Fail(rule, construct string, pos token.Pos, m *Module, detail string) {
	c.add(Ob{Rule: rule, Construct: construct, Pos: c.posStr(m, pos), Verdict: "violated", Detail: detail})
}

// Undecided records an obligation the rule could not decide (counts as failure).
func (c *Ctx) Undecided(rule, construct string, pos token.Pos, m *Module, detail string) {
	c.add(Ob{Rule: rule, Construct: construct, Pos: c.posStr(m, pos), Verdict: "undecided", Detail: detail})
}

// Check records OK or Fail depending on cond.
func (c *Ctx) Check(cond bool, rule, construct string, pos token.Pos, m *Module, okDetail, failDetail string) bool {
	if cond {
		c.OK(rule, construct, pos, m, okDetail)
	} else {
		c.Fail(rule, construct, pos, m, failDetail)
	}
	return cond
}

// Floor asserts that a rule matched at least want sites.
func (c *Ctx) Floor(rule string, got, want int) {
	if got < want {
		c.add(Ob{Rule: "floor", Construct: rule, Pos: "-", Verdict: "undecided",
			Detail: fmt.Sprintf("rule %s matched %d sites, at least %d confirmed on the reference tree: anchors moved or matcher broken", rule, got, want)})
	} else {
		c.Floors = append(c.Floors, fmt.Sprintf("%s: %d sites (floor %d)", rule, got, want))
	}
}

// NeedFunc resolves a function key or records an undecided obligation.
func (c *Ctx) NeedFunc(m *Module, key string) *Func {
	if m == nil {
		return nil
	}
	f := m.Func(key)
	if f == nil {
		c.Undecided("anchor", key, token.NoPos, m, "anchored function not found (renamed or removed); rule tables must be re-confirmed")
		return nil
	}
	c.funcs[key] = true
	return f
}

func (c *Ctx) Touch(f *Func) {
	if f != nil {
		c.funcs[f.Key] = true
	}
}

func (c *Ctx) Set(k string, v any) { c.extra[k] = v }

type finding struct {
	Status   string `json:"status"`
	Property string `json:"property"`
	Key      string `json:"key"`
	What     string `json:"what"`
	Commit   string `json:"commit,omitempty"`
}

func loadFindings(path string) ([]finding, error) {
	f, err := os.Open(path)
	if err != nil {
		if os.IsNotExist(err) {
			return nil, nil
		}
		return nil, err
	}
	defer f.Close()
	var out []finding
	sc := bufio.NewScanner(f)
	sc.Buffer(make([]byte, 1<<20), 1<<20)
	for sc.Scan() {
		line := strings.TrimSpace(sc.Text())
		if line == "" || strings.HasPrefix(line, "#") {
			continue
		}
		var x finding
		if err := json.Unmarshal([]byte(line), &x); err != nil {
			return nil, fmt.Errorf("known_findings: %v", err)
		}
		out = append(out, x)
	}
	return out, sc.Err()
}

// runProp runs one property and writes evidence. Returns the exit code.
func runProp(p *Prop, tier, verifDir string, seed int64) int {
	start := time.Now()
	c := &Ctx{Prop: p, Tier: tier, funcs: map[string]bool{}, ruleCnt: map[string]int{}, extra: map[string]any{}}
	func() {
		defer func() {
			if r := recover(); r != nil {
				c.add(Ob{Rule: "analyser", Construct: "panic", Pos: "-", Verdict: "undecided", Detail: fmt.Sprint(r)})
				if os.Getenv("FGCHECK_DEBUG") != "" {
					panic(r)
				}
			}
		}()
		p.Run(c)
		if tier == "thorough" {
			// the same rules over the other build configurations of the repository:
			// 32-bit ints (constant evaluation, conversions) and the synctests tag
			// (channel-based mutexes replace sync.Mutex in pkg/kgo)
			for _, cfg := range thoroughConfigs {
				c.ovTags, c.ovArch = cfg[0], cfg[1]
				p.Run(c)
			}
			c.ovTags, c.ovArch = "", ""
		}
	}()
	known, err := loadFindings(filepath.Join(verifDir, "known_findings.jsonl"))
	if err != nil {
		c.add(Ob{Rule: "analyser", Construct: "known_findings", Pos: "-", Verdict: "undecided", Detail: err.Error()})
	}
	knownKeys := map[string]finding{}
	for _, k := range known {
		if k.Property == p.ID && k.Status == "known" {
			knownKeys[k.Key] = k
		}
	}
	var bad []Ob
	nOK, nKnown := 0, 0
	printedKnown := map[string]bool{}
	for i := range c.Obs {
		o := &c.Obs[i]
		switch o.Verdict {
		case "discharged":
			nOK++
		case "violated":
			if k, ok := knownKeys[o.Key()]; ok {
				o.Verdict = "known"
				nKnown++
				if !printedKnown[o.Key()] {
					printedKnown[o.Key()] = true
					fmt.Printf("KNOWN-FINDING: property=%s %s at %s: %s\n", p.ID, o.Key(), o.Pos, k.What)
				}
			} else {
				bad = append(bad, *o)
			}
		default:
			bad = append(bad, *o)
		}
	}
	if len(c.Obs) == 0 {
		bad = append(bad, Ob{Rule: "analyser", Construct: "no-obligations", Verdict: "undecided", Detail: "check produced no obligations"})
	}
	wall := time.Since(start).Seconds()

	// samples: a spread of obligations, violations first
	var samples []Ob
	samples = append(samples, bad...)
	if len(samples) > 20 {
		samples = samples[:20]
	}
	step := len(c.Obs)/12 + 1
	for i := 0; i < len(c.Obs); i += step {
		samples = append(samples, c.Obs[i])
	}
	rules := map[string]int{}
	for k, v := range c.ruleCnt {
		rules[k] = v
	}
	var fl []string
	for k := range c.funcs {
		fl = append(fl, k)
	}
	sort.Strings(fl)
	npk := 0
	for _, m := range c.Mods {
		npk += len(m.Pkgs)
	}
	cov := map[string]any{
		"explanation":        p.Explanation + " NOT DECIDED: " + p.NotDecided,
		"obligations":        len(c.Obs),
		"discharged":         nOK,
		"known_findings":     nKnown,
		"samples":            samples,
		"rules":              rules,
		"floors":             c.Floors,
		"functions_analysed": fl,
		"configurations":     c.Configs,
		"packages_loaded":    npk,
		"checker_cmd":        fmt.Sprintf("./run.sh %s %s", p.ID, tier),
		"trusted_base":       append([]string{"go/packages + go/types (go1.26.8, x/tools v0.50.0)", "go/cfg control-flow graphs", "the rule tables in /verif/fgcheck (confirmed by reading the pinned tree)"}, p.Assumptions...),
		"exhaustive":         true,
	}
	for k, v := range c.extra {
		cov[k] = v
	}
	if p.Level == "translation_validation" {
		if _, ok := cov["programs"]; !ok {
			cov["programs"] = len(fl)
		}
		if _, ok := cov["disagreements_checked"]; !ok {
			cov["disagreements_checked"] = len(c.Obs)
		}
	}
	ev := map[string]any{
		"property_id": p.ID,
		"tier":        tier,
		"seed":        seed,
		"level":       p.Level,
		"coverage":    cov,
		"assumptions": append([]string{"static analysis of the source only: no code of the repository is executed"}, p.Assumptions...),
		"wall_s":      wall,
		"violations":  len(bad),
	}
	evDir := filepath.Join(verifDir, "evidence")
	if evidenceDir != "" {
		evDir = evidenceDir
	}
	os.MkdirAll(evDir, 0o755)
	evPath := filepath.Join(evDir, p.ID+".json")
	data, _ := json.MarshalIndent(ev, "", " ")
	if err := os.WriteFile(evPath, data, 0o644); err != nil {
		fmt.Fprintln(os.Stderr, "cannot write evidence:", err)
		return 2
	}
	fmt.Printf("%s %s: %d obligations, %d discharged, %d known findings, %d violations/undecided, %d functions, %.1fs\n",
		p.ID, tier, len(c.Obs), nOK, nKnown, len(bad), len(fl), wall)
	if len(bad) > 0 {
		vpath := filepath.Join(evDir, p.ID+".violations.json")
		vd, _ := json.MarshalIndent(bad, "", " ")
		os.WriteFile(vpath, vd, 0o644)
		for _, o := range bad {
			tag := "VIOLATED"
			if o.Verdict == "undecided" {
				tag = "UNDECIDED"
			}
			cfgs := ""
			if o.Config != "" {
				cfgs = " [" + o.Config + "]"
			}
			fmt.Printf("%s %s rule=%s construct=%s%s at %s: %s\n", tag, p.ID, o.Rule, o.Construct, cfgs, o.Pos, o.Detail)
		}
		fmt.Printf("VIOLATION property=%s replay=%s\n", p.ID, vpath)
		return 1
	}
	os.Remove(filepath.Join(evDir, p.ID+".violations.json"))
	return 0
}
