package main

import (
	"go/ast"
	"strings"
)

func init() {
	register(&Prop{
		ID:        "C39",
		Level:     "other",
		Technique: "removal-path rules (invalidate-then-forget under the consumer lock, unconditional per-item bookkeeping), who-may-write table for the direct consumer's using set, shape rules for new-assignment discovery and the regex filter, guard-fact rules for every selection update (no per-item guard, no guard on the consumer's own bookkeeping), sentinel writer/reader agreement for the cursor's never-consumed epoch",
		Explanation: "(1) RemoveConsumePartitions invalidates the removed set with assignPartitions(assignInvalidateMatching, d.tps) under c.mu and then, for every removed (topic, partition) unconditionally, removes it from using, from the selection mirror m and from the pinned-offset map ps (a partition left in ps is re-assigned by the next metadata update); " +
			"(2) consumer.purgeTopics calls assignPartitions(assignPurgeMatching) and then, for every purged topic unconditionally, deletes it from using and reSeen (and from m and ps for the direct consumer): a stale using entry would stop the topic from ever being consumed again; " +
			"(3) directConsumer.using gains entries only in findNewAssignments, from the candidate set minus what is already used; the candidate set takes only selected topics (m / regex verdict), skips internal topics under regex and topics without partitions, and adds the pinned partitions of selected topics; what it returns is assigned without invalidating; " +
			"(4) the regex filter keeps a topic only if some include pattern matches and no exclude pattern matches (exclusions are applied after a positive match), remembers the verdict, and returns exactly the wanted topics; " +
			"(5) every call that adds to the selection mirror m (AddConsumeTopics, AddConsumePartitions, initDirect) sits in a loop over the request itself (the parameter / the configured set), takes the loop's item as argument, is reached under no branch fact beyond those holding at the loop (no per-item guard, no continue before it), the loop is not guarded by a test of the direct consumer's own bookkeeping (tps, using, ps, reSeen, m, or a local derived from them) and has no early exit, and tps.storeTopics is called on the same path: m is what the user selected, tps is what metadata is loaded for, and membership in tps never gates a selection update; " +
			"(6) cursor.unset unconditionally stores a constant negative lastConsumedEpoch (through setOffset, which is a whole-struct store of its argument, or by a field store) and clears the usable flag, and assignPartitions calls it on the walked used cursor in the invalidate-all and invalidate-matching arms; " +
			"(7) sentinel writer/reader agreement: every constant lastConsumedEpoch stored in the package is negative, every cursorOffset literal gives the epoch explicitly (an omitted epoch is 0 = consumed), every comparison of the epoch with a constant puts all written sentinels on the same side, and migrateCursorTo re-validates and re-enables a moved cursor (cursor.use + epoch load) only under an epoch test that excludes every sentinel, so an unset (removed / never selected) partition is not resurrected by a leader move; " +
			"(8) the internal flag read by the regex guard is propagated on every merge: metadataTopic.isInternal comes from the Metadata response's IsInternal, newPartitions copies it, and mergeTopicPartitions stores it into the kept topic data unguarded; " +
			"(9) a whole-map store directConsumer.ps[t] = M is a fresh map only under `ps[t] == nil` (or at construction), AddConsumePartitions stores every requested (partition, offset) element-wise with no per-item guard, and ps entries are deleted only by RemoveConsumePartitions / purgeTopics.",
		NotDecided: "eventual consumption of every selected partition (liveness), the group consumer's equivalent bookkeeping beyond the purge path, whether unset also resets offset / lastConsumedTime / hwm (only the epoch sentinel read by migrateCursorTo is decided), and other routes by which an unset cursor could be re-enabled (pending list / epoch loads are only covered through the load filter of assignPartitions, not decided here).",
		Run:        runC39,
	})
}

func loopBodyStmts(rs *ast.RangeStmt) string {
	var ss []string
	for _, s := range rs.Body.List {
		ss = append(ss, nosp(nodeStr(s)))
	}
	return strings.Join(ss, ";")
}

func runC39(c *Ctx) {
	m := c.Load("")
	if m == nil {
		return
	}
	c39round3(c, m)
	c39round4(c, m)
	if f := c.NeedFunc(m, "kgo.Client.RemoveConsumePartitions"); f != nil {
		rule := "remove-invalidates-then-forgets"
		g := f.Graph()
		var asg Loc
		haveAsg := false
		ast.Inspect(f.Decl.Body, func(x ast.Node) bool {
			call, ok := x.(*ast.CallExpr)
			if ok && nosp(exprStr(call.Fun)) == "c.assignPartitions" && len(call.Args) == 4 && exprStr(call.Args[0]) == "removeOffsets" && exprStr(call.Args[1]) == "assignInvalidateMatching" && nosp(exprStr(call.Args[2])) == "c.d.tps" {
				asg, haveAsg = g.LocOf(call)
			}
			return true
		})
		c.Check(haveAsg, rule, f.Key+"#invalidate", f.Pos(), m, "assignPartitions(removeOffsets, assignInvalidateMatching, c.d.tps)", "the removed partitions are not invalidated with assignInvalidateMatching")
		env := newLockEnv(f, nil, nil)
		okLoop := false
		ast.Inspect(f.Decl.Body, func(x ast.Node) bool {
			rs, ok := x.(*ast.RangeStmt)
			if !ok || exprStr(rs.X) != "ps" || rs.Value == nil {
				return true
			}
			p := exprStr(rs.Value)
			body := loopBodyStmts(rs)
			if body == "c.d.using.remove(t,"+p+");c.d.m.remove(t,"+p+");delete(c.d.ps[t],"+p+")" {
				l, _ := g.LocOf(rs.X)
				held, _ := env.HeldAtNode(rs.X)
				okLoop = haveAsg && g.Dominates(asg, l) && held.Holds("cl.consumer.mu", true)
			}
			return true
		})
		c.Check(okLoop, rule, f.Key+"#forget-each", f.Pos(), m, "using, m and ps forget every removed partition, after invalidation, under c.mu",
			"RemoveConsumePartitions does not unconditionally remove every (topic, partition) from using, m and ps after invalidating (a pinned partition left in ps is re-assigned by the next metadata update)")
		// outer loop ranges over the caller's partitions
		okOuter := false
		ast.Inspect(f.Decl.Body, func(x ast.Node) bool {
			rs, ok := x.(*ast.RangeStmt)
			if ok && exprStr(rs.X) == "partitions" && containsNode(rs.Body, false, func(y ast.Node) bool {
				call, ok := y.(*ast.CallExpr)
				return ok && nosp(exprStr(call.Fun)) == "c.d.using.remove"
			}) {
				// no continue / condition wrapping the inner loop
				okOuter = true
				for _, st := range rs.Body.List {
					if ifs, ok := st.(*ast.IfStmt); ok {
						if nosp(exprStr(ifs.Cond)) != "len(c.d.ps[t])==0" {
							okOuter = false
						}
					}
				}
			}
			return true
		})
		c.Check(okOuter, rule, f.Key+"#all-topics", f.Pos(), m, "", "the bookkeeping loop does not cover every requested topic unconditionally")
	}
	if f := c.NeedFunc(m, "kgo.consumer.purgeTopics"); f != nil {
		rule := "purge-forgets-topic"
		g := f.Graph()
		nLoops := 0
		ast.Inspect(f.Decl.Body, func(x ast.Node) bool {
			rs, ok := x.(*ast.RangeStmt)
			if !ok || exprStr(rs.X) != "topics" || rs.Value == nil {
				return true
			}
			body := loopBodyStmts(rs)
			t := exprStr(rs.Value)
			switch body {
			case "delete(c.g.using," + t + ");delete(c.g.reSeen," + t + ")":
				nLoops++
				c.OK(rule, f.Key+"#group", rs.Pos(), m, "group: using and reSeen forget every purged topic")
			case "delete(c.d.using," + t + ");delete(c.d.reSeen," + t + ");delete(c.d.m," + t + ");delete(c.d.ps," + t + ")":
				nLoops++
				c.OK(rule, f.Key+"#direct", rs.Pos(), m, "direct: using, reSeen, m and ps forget every purged topic")
			case "purgeAssignments[" + t + "]=nil":
			default:
				c.Fail(rule, f.Key+": for range topics {"+body+"}", rs.Pos(), m, "the purge bookkeeping is conditional or incomplete: a topic left in `using` is never consumed again when it reappears (regex consumers, recreated topics)")
			}
			return true
		})
		c.Check(nLoops == 2, rule, f.Key+"#both-branches", f.Pos(), m, "", "group/direct purge bookkeeping loops not found")
		// assignPartitions(assignPurgeMatching) precedes each loop
		n := 0
		ast.Inspect(f.Decl.Body, func(x ast.Node) bool {
			call, ok := x.(*ast.CallExpr)
			if ok && nosp(exprStr(call.Fun)) == "c.assignPartitions" && len(call.Args) == 4 && exprStr(call.Args[1]) == "assignPurgeMatching" && exprStr(call.Args[0]) == "purgeAssignments" {
				n++
				l, _ := g.LocOf(call)
				// the bookkeeping loop in the same branch follows
				blk := enclosingBlock(f.Decl.Body, enclosingStmt(f.Decl.Body, call))
				follows := false
				if blk != nil {
					seen := false
					for _, st := range blk.List {
						if containsNode(st, false, func(y ast.Node) bool { return y == ast.Node(call) }) {
							seen = true
							continue
						}
						if rs, ok := st.(*ast.RangeStmt); ok && seen && exprStr(rs.X) == "topics" {
							follows = true
						}
					}
				}
				_ = l
				c.Check(follows, rule, f.Key+": "+nosp(exprStr(call.Args[2]))+"#purge-then-forget", call.Pos(), m, "", "purge assignment is not followed by the bookkeeping loop")
			}
			return true
		})
		c.Check(n == 2, rule, f.Key+"#purge-calls", f.Pos(), m, "", "assignPartitions(assignPurgeMatching) calls not found")
		env := newLockEnv(f, nil, nil)
		ast.Inspect(f.Decl.Body, func(x ast.Node) bool {
			call, ok := x.(*ast.CallExpr)
			if ok && exprStr(call.Fun) == "delete" && strings.HasSuffix(nosp(exprStr(call.Args[0])), ".using") {
				held, _ := env.HeldAtNode(call)
				c.Check(held.Holds("c.mu", true), rule, f.Key+": "+exprStr(call)+"#locked", call.Pos(), m, "", "using is modified without c.mu")
			}
			return true
		})
	}
	// who writes d.using
	if fv := fieldMust(c, m, "directConsumer", "using"); fv != nil {
		rule := "direct-using-writers"
		allowed := map[string]string{
			"kgo.directConsumer.findNewAssignments": "adds newly discovered partitions",
			"kgo.Client.RemoveConsumePartitions":    "removes requested partitions",
			"kgo.consumer.purgeTopics":              "forgets purged topics",
			"kgo.consumer.initDirect":               "construction",
		}
		n := 0
		for _, f := range m.FuncsIn("kgo") {
			writes := false
			ast.Inspect(f.Decl.Body, func(x ast.Node) bool {
				switch s := x.(type) {
				case *ast.AssignStmt:
					for _, l := range s.Lhs {
						if ix, ok := unparen(l).(*ast.IndexExpr); ok && sameField(fieldOfSel(f.Info(), ix.X), fv) {
							writes = true
						}
						if sameField(fieldOfSel(f.Info(), l), fv) {
							writes = true
						}
					}
				case *ast.CallExpr:
					if id, ok := s.Fun.(*ast.Ident); ok && id.Name == "delete" && len(s.Args) == 2 && sameField(fieldOfSel(f.Info(), s.Args[0]), fv) {
						writes = true
					}
					if sel, ok := s.Fun.(*ast.SelectorExpr); ok && sameField(fieldOfSel(f.Info(), sel.X), fv) {
						switch sel.Sel.Name {
						case "add", "addt", "remove":
							writes = true
						}
					}
				case *ast.KeyValueExpr:
					if id, ok := s.Key.(*ast.Ident); ok && id.Name == "using" && f.Key == "kgo.consumer.initDirect" {
						writes = true
					}
				}
				return true
			})
			if !writes {
				continue
			}
			n++
			_, ok := allowed[f.Key]
			c.Check(ok, rule, f.Key, f.Pos(), m, allowed[f.Key], "directConsumer.using is modified by a function outside the confirmed table")
		}
		c.Floor(rule, n, 3)
	}
	if f := c.NeedFunc(m, "kgo.directConsumer.findNewAssignments"); f != nil {
		rule := "new-assignment-discovery"
		body := nows(stripComments(printNode(m.Fset, f.Decl.Body)))
		checks := []struct{ frag, what string }{
			{"ifd.cfg.regex{useTopic=d.reSeen[topic]}else{useTopic=d.m.onlyt(topic)}if!useTopic{continue}", "only selected topics (regex verdict / topic-only selection) are taken whole"},
			{"ifd.cfg.regex&&partitions.isInternal||len(partitions.partitions)==0{continue}", "internal topics are skipped under regex; topics without partitions are skipped"},
			{"forpartition:=rangepartitions.partitions{toUseTopic[int32(partition)]=d.cfg.startOffset}", "every partition of a selected topic is a candidate"},
			{"fortopic:=ranged.m{forpartition,offset:=ranged.ps[topic]{", "pinned partitions of selected topics are candidates"},
			{"fortopic,partitions:=ranged.using{toUseTopic,exists:=toUse[topic]if!exists{continue}forpartition:=rangepartitions{delete(toUseTopic,partition)}iflen(toUseTopic)==0{delete(toUse,topic)}}", "already used partitions are subtracted"},
			{"fortopic,partitions:=rangetoUse{topicUsing,exists:=d.using[topic]if!exists{topicUsing=make(map[int32]struct{})d.using[topic]=topicUsing}forpartition:=rangepartitions{topicUsing[partition]=struct{}{}}}returntoUse", "exactly the returned candidates are recorded as used"},
		}
		for _, ck := range checks {
			c.Check(strings.Contains(body, ck.frag), rule, f.Key+"#"+ck.what, f.Pos(), m, ck.what, "discovery step changed: "+ck.what)
		}
	}
	if f := c.NeedFunc(m, "kgo.consumer.doOnMetadataUpdate"); f != nil {
		body := nows(printNode(m.Fset, f.Decl.Body))
		c.Check(strings.Contains(body, "ifnew:=c.d.findNewAssignments();len(new)>0{c.assignPartitions(new,assignWithoutInvalidating,c.d.tps,"), "new-assignment-discovery", f.Key+"#assign-new", f.Pos(), m, "", "newly discovered partitions are not assigned (without invalidating)")
	}
	if f := c.NeedFunc(m, "kgo.consumer.filterMetadataAllTopics"); f != nil {
		rule := "regex-filter"
		body := nows(stripComments(printNode(m.Fset, f.Decl.Body)))
		frag := "want,seen:=reSeen[topic]if!seen{forrawRe,re:=rangec.cl.cfg.topics{ifwant=re.MatchString(topic);want{rns.add(rawRe,topic)break}}ifwant{for_,re:=rangec.cl.cfg.excludeTopics{ifre.MatchString(topic){want=falsebreak}}}if!want{rns.skip(topic)}reSeen[topic]=want}ifwant{keep=append(keep,topic)}"
		c.Check(strings.Contains(body, frag) && strings.HasSuffix(body, "returnkeep}"), rule, f.Key, f.Pos(), m, "include match, then exclusions, verdict remembered, wanted topics returned", "the regex include/exclude decision changed")
	}
}
