package main

import (
	"fmt"
	"go/ast"
	"go/token"
	"go/types"
	"strings"

	"golang.org/x/tools/go/cfg"
)

func init() {
	register(&Prop{
		ID:        "C30",
		Level:     "other",
		Technique: "must-lockset analysis of the ring's fields, condition-variable discipline (loop-guarded wait, unconditional wake after every freeing store), index-arithmetic shape rules, use-site protocol table for every ring (worker started only on first push, drains with dropPeek while more), state-machine table of the work latch and exactly-once finish counting of every latch worker",
		Explanation: "(1) ring.elems/head/l/dead are read and written only with ring.mu held (resize is called locked); " +
			"(2) cond discipline: the bounded push waits in a for loop on `maxLen > 0 && l >= maxLen && !dead`; every `l--` is followed on all paths by cond.Signal/Broadcast guarded by nothing but `cond != nil` (a conditional wake strands parked pushers); dead = true is followed by Broadcast; " +
			"(3) index arithmetic: the write position is (head+l) % cap(elems), head advances by (head+1) % cap(elems), resize resets head to 0 and copies l elements in order, first == (l == 1 after the increment), a dead ring rejects the element before storing it; " +
			"(4) use-site protocol for every ring field (broker.reqs, brokerCxn.resps, sink.seqResps, producer.batchPromises, shareConsumer.callbackRing): the worker is started only with `go` under first == true of a push on that ring, every dropPeek of the ring is inside that worker which continues while more, and the worker is started nowhere else; " +
			"(5) work latch: maybeBegin/maybeFinish/hardFinish implement exactly the three-state table (hardFinish stores Unstarted unconditionally); state is touched only inside those methods; for each latch user the worker is spawned only under maybeBegin() == true and every exit of the worker has finished the latch exactly once (hardFinish, or maybeFinish returning false); the only exempt exits are those taken on the share consumer's terminal context.",
		NotDecided: "linearisability of the queue and absence of lost wake-ups under all interleavings (schedule properties) beyond these disciplines.",
		Run:        runC30,
	})
}

func runC30(c *Ctx) {
	m := c.Load("")
	if m == nil {
		return
	}
	c30ringLocks(c, m)
	c30ringCond(c, m)
	c30ringIndex(c, m)
	c30ringUsers(c, m)
	c30latch(c, m)
}

func c30ringLocks(c *Ctx, m *Module) {
	n := 0
	for _, fld := range []string{"elems", "head", "l", "dead"} {
		n += guardedByRule(c, m, "kgo", GuardSpec{
			Rule: "ring-fields-under-mu", Type: "ring", Field: fld, Mutex: "mu", ReadsToo: true,
			EntryLocks: map[string][]string{"kgo.ring.resize": {"r.mu"}},
		})
	}
	c.Floor("ring-fields-under-mu", n, 30)
	// resize is only called from ring methods holding the lock
	rz := m.Func("kgo.ring.resize")
	if rz != nil {
		for _, site := range CallSites(m.FuncsIn("kgo"), rz.Obj) {
			env := newLockEnv(site.Fn, nil, nil)
			held, ok := env.HeldAtNode(site.Node)
			c.Check(ok && held.Holds("r.mu", true), "ring-fields-under-mu", site.Fn.Key+": resize (called locked)", site.Node.Pos(), m, "", "resize is called without ring.mu")
		}
	}
}

func c30ringCond(c *Ctx, m *Module) {
	rule := "ring-cond-discipline"
	if f := c.NeedFunc(m, "kgo.ring.doPush"); f != nil {
		ok := false
		ast.Inspect(f.Decl.Body, func(x ast.Node) bool {
			if fs, isFor := x.(*ast.ForStmt); isFor && fs.Cond != nil && len(fs.Body.List) == 1 {
				if nosp(exprStr(fs.Cond)) == "r.maxLen>0&&r.l>=r.maxLen&&!r.dead" && nosp(nodeStr(fs.Body.List[0])) == "r.cond.Wait()" {
					ok = true
				}
			}
			return true
		})
		c.Check(ok, rule, f.Key+"#wait-loop", f.Pos(), m, "blocks only while full and alive, re-checked in a loop", "the bounded push does not wait in `for maxLen > 0 && l >= maxLen && !dead { cond.Wait() }`")
		// wait only when asked
		g := f.Graph()
		for _, n := range findNodes(f.Decl.Body, false, func(x ast.Node) bool {
			call, ok := x.(*ast.CallExpr)
			return ok && nosp(exprStr(call.Fun)) == "r.cond.Wait"
		}) {
			l, _ := g.LocOf(n)
			w := factMatches(g.FactsAt(l), func(ft Fact) bool { id, ok := ft.Cond.(*ast.Ident); return ok && id.Name == "wait" && ft.Val })
			c.Check(w, rule, f.Key+"#wait-only-blocking-push", n.Pos(), m, "", "pushForce can block")
		}
	}
	lf := fieldMust(c, m, "ring", "l")
	df := fieldMust(c, m, "ring", "dead")
	if lf == nil || df == nil {
		return
	}
	isWake := func(n ast.Node, sig bool) bool {
		return containsNode(n, false, func(y ast.Node) bool {
			call, ok := y.(*ast.CallExpr)
			if !ok {
				return false
			}
			s := nosp(exprStr(call.Fun))
			return s == "r.cond.Broadcast" || (sig && s == "r.cond.Signal")
		})
	}
	nDec := 0
	for _, st := range StoreSites(m.FuncsIn("kgo"), lf) {
		if st.Kind != "dec" && st.Kind != "opassign:-=" {
			continue
		}
		nDec++
		g := st.Fn.GraphFor(st.Node)
		l, _ := g.LocOf(st.Node)
		// every path to an exit passes a wake or the `r.cond != nil` test being false
		_, lost := g.FindPath(l, SearchOpts{
			Stop:     func(n ast.Node) bool { return isWake(n, true) },
			GoalExit: func(k ExitKind, last ast.Node) bool { return k != ExitPanic },
			EdgeOK: func(from *cfg.Block, k int, to *cfg.Block) bool {
				// the false edge of `r.cond != nil` needs no wake (unbounded ring has no waiters)
				if cond, _, ok := g.condOf(from); ok && nosp(exprStr(cond)) == "r.cond!=nil" && k == 1 {
					return false
				}
				return true
			},
		})
		c.Check(!lost, rule, st.Fn.Key+": "+nodeStr(st.Node), st.Node.Pos(), m, "every freed slot wakes a parked pusher", "a slot is freed (l--) on a path that does not Signal/Broadcast the ring's cond: with several pushers parked on a full ring only some are ever woken")
		// the wake is guarded by nothing else
		for _, wn := range findNodes(st.Fn.Decl.Body, false, func(x ast.Node) bool {
			call, ok := x.(*ast.CallExpr)
			return ok && (nosp(exprStr(call.Fun)) == "r.cond.Signal" || nosp(exprStr(call.Fun)) == "r.cond.Broadcast")
		}) {
			wl, _ := g.LocOf(wn)
			var extra []string
			for _, ft := range g.FactsAt(wl) {
				s := nosp(exprStr(ft.Cond))
				if (s == "r.cond!=nil" && ft.Val) || (s == "r.l==0" && !ft.Val) {
					continue
				}
				extra = append(extra, s)
			}
			c.Check(len(extra) == 0, rule, st.Fn.Key+": "+exprStr(wn)+"#unconditional", wn.Pos(), m, "guarded only by cond != nil", "the wake after freeing a slot is conditional on "+strings.Join(extra, ", "))
		}
	}
	c.Floor(rule+"#decrements", nDec, 1)
	nDead := 0
	for _, st := range StoreSites(m.FuncsIn("kgo"), df) {
		v, ok := constBool(st.Fn.Info(), st.RHS)
		if !ok || !v {
			c.Fail(rule, st.Fn.Key+": "+nodeStr(st.Node), st.Node.Pos(), m, "dead is stored a value other than true")
			continue
		}
		nDead++
		g := st.Fn.GraphFor(st.Node)
		l, _ := g.LocOf(st.Node)
		_, lost := g.FindPath(l, SearchOpts{
			Stop:     func(n ast.Node) bool { return isWake(n, false) },
			GoalExit: func(k ExitKind, last ast.Node) bool { return k != ExitPanic },
			EdgeOK: func(from *cfg.Block, k int, to *cfg.Block) bool {
				if cond, _, ok := g.condOf(from); ok && nosp(exprStr(cond)) == "r.cond!=nil" && k == 1 {
					return false
				}
				return true
			},
		})
		c.Check(!lost, rule, st.Fn.Key+": "+nodeStr(st.Node), st.Node.Pos(), m, "killing the ring wakes every parked pusher", "dead = true is not followed by Broadcast: parked pushers never learn the ring died")
	}
	c.Floor(rule+"#dead", nDead, 1)
}

func c30ringIndex(c *Ctx, m *Module) {
	rule := "ring-index-arithmetic"
	stmts := func(f *Func) map[string]bool {
		got := map[string]bool{}
		ast.Inspect(f.Decl.Body, func(x ast.Node) bool {
			if s, ok := x.(ast.Stmt); ok {
				got[nosp(nodeStr(s))] = true
			}
			return true
		})
		return got
	}
	want := map[string][]string{
		"kgo.ring.doPush":   {"writePos:=(r.head+r.l)%cap(r.elems)", "r.elems[writePos]=elem", "r.l++", "returnr.l==1,false"},
		"kgo.ring.dropPeek": {"r.elems[r.head]=zero", "r.head=(r.head+1)%cap(r.elems)", "r.l--", "returnr.elems[r.head],true,r.dead"},
		"kgo.ring.resize":   {"r.elems=newElems", "r.head=0", "newElems:=make([]T,newCap)"},
	}
	for key, ws := range want {
		f := c.NeedFunc(m, key)
		if f == nil {
			continue
		}
		got := stmts(f)
		var missing []string
		for _, w := range ws {
			if !got[w] {
				missing = append(missing, w)
			}
		}
		c.Check(len(missing) == 0, rule, key, f.Pos(), m, "", "expected statement(s) not found: "+strings.Join(missing, "; "))
	}
	if f := c.NeedFunc(m, "kgo.ring.doPush"); f != nil {
		g := f.Graph()
		// dead check dominates the store; grow when full dominates the store
		var deadLoc, storeLoc, growLoc, incLoc, retLoc Loc
		h := [5]bool{}
		for _, b := range g.C.Blocks {
			for i, nd := range b.Nodes {
				l := Loc{int(b.Index), i}
				s := nosp(nodeStr(nd))
				switch {
				case s == "r.dead":
					if _, isExpr := nd.(ast.Expr); isExpr && !h[0] {
						deadLoc, h[0] = l, true
					}
				case s == "r.elems[writePos]=elem":
					storeLoc, h[1] = l, true
				case s == "r.l==cap(r.elems)":
					growLoc, h[2] = l, true
				case s == "r.l++":
					incLoc, h[3] = l, true
				case s == "returnr.l==1,false":
					retLoc, h[4] = l, true
				}
			}
		}
		ok := h[0] && h[1] && h[2] && h[3] && h[4] && g.Dominates(deadLoc, storeLoc) && g.Dominates(growLoc, storeLoc) && g.Dominates(storeLoc, incLoc) && g.Dominates(incLoc, retLoc)
		c.Check(ok, rule, f.Key+"#order", f.Pos(), m, "dead check, grow-when-full, store, l++, first = (l == 1)", "push does not check dead / grow / store / count in that order")
		// the dead arm returns (false, true)
		okDead := false
		for _, rn := range findNodes(f.Decl.Body, false, func(x ast.Node) bool { _, ok := x.(*ast.ReturnStmt); return ok }) {
			r := rn.(*ast.ReturnStmt)
			l, _ := g.LocOf(r)
			if factMatches(g.FactsAt(l), func(ft Fact) bool { return ft.Val && nosp(exprStr(ft.Cond)) == "r.dead" }) {
				a, ok1 := constBool(f.Info(), r.Results[0])
				b, ok2 := constBool(f.Info(), r.Results[1])
				okDead = ok1 && ok2 && !a && b
			}
		}
		c.Check(okDead, rule, f.Key+"#dead-rejects", f.Pos(), m, "", "a dead ring does not reject the element with (first=false, dead=true)")
	}
	if f := c.NeedFunc(m, "kgo.ring.resize"); f != nil {
		// copies exactly the l elements starting at head (two-part copy when wrapped)
		got := stmts(f)
		ok := got["copy(newElems,r.elems[r.head:r.head+r.l])"] && got["n:=copy(newElems,r.elems[r.head:])"] && got["copy(newElems[n:],r.elems[:r.l-n])"]
		c.Check(ok, rule, f.Key+"#copy", f.Pos(), m, "", "resize does not copy the l live elements in order starting at head")
	}
}

func c30ringUsers(c *Ctx, m *Module) {
	rule := "ring-use-site-protocol"
	funcs := m.FuncsIn("kgo")
	push := m.Func("kgo.ring.push")
	pushF := m.Func("kgo.ring.pushForce")
	drop := m.Func("kgo.ring.dropPeek")
	if push == nil || pushF == nil || drop == nil {
		c.Undecided("anchor", "kgo.ring", 0, m, "ring methods not found")
		return
	}
	// worker table confirmed on the reference tree: ring path suffix -> worker function key
	workers := map[string]string{
		"reqs":          "kgo.broker.handleReqs",
		"resps":         "kgo.brokerCxn.handleResps",
		"seqResps":      "kgo.sink.handleSeqResps",
		"batchPromises": "kgo.producer.finishPromises",
		"callbackRing":  "kgo.shareConsumer.drainCallbacks",
	}
	ringOf := func(call *ast.CallExpr) string {
		sel, ok := call.Fun.(*ast.SelectorExpr)
		if !ok {
			return ""
		}
		if s2, ok := unparen(sel.X).(*ast.SelectorExpr); ok {
			return s2.Sel.Name
		}
		return exprStr(sel.X)
	}
	nPush := 0
	sites := append(CallSites(funcs, push.Obj), CallSites(funcs, pushF.Obj)...)
	for _, site := range sites {
		if strings.HasPrefix(site.Fn.Key, "kgo.ring.") {
			continue
		}
		nPush++
		c.Touch(site.Fn)
		call := site.Node.(*ast.CallExpr)
		rn := ringOf(call)
		w, ok := workers[rn]
		cons := site.Fn.Key + ": " + exprStr(call.Fun)
		if !ok {
			c.Fail(rule, cons, call.Pos(), m, "push on a ring that is not in the confirmed worker table")
			continue
		}
		// the first result is bound to a variable tested before `go worker(...)`
		var body ast.Node = site.Fn.Decl.Body
		if site.Lit != nil {
			body = site.Lit.Body
		}
		g := site.Fn.GraphFor(call)
		wf := m.Func(w)
		if wf == nil {
			c.Undecided("anchor", w, 0, m, "worker not found")
			continue
		}
		started := false
		for _, wc := range callsTo(body, site.Fn.Info(), wf.Obj, false) {
			isGo := false
			ast.Inspect(body, func(x ast.Node) bool {
				if gs, ok := x.(*ast.GoStmt); ok && gs.Call == wc {
					isGo = true
				}
				return true
			})
			l, _ := g.LocOf(wc)
			first := factMatches(g.FactsAt(l), func(ft Fact) bool { id, ok := ft.Cond.(*ast.Ident); return ok && id.Name == "first" && ft.Val })
			if isGo && first {
				started = true
			} else {
				c.Fail(rule, cons+"#worker-start", wc.Pos(), m, "the ring worker is started outside `if first { go worker }`")
			}
		}
		c.Check(started, rule, cons, call.Pos(), m, "worker "+w+" started on first push", "a push on ring "+rn+" does not start its worker when it was the first element")
	}
	c.Floor(rule+"#pushes", nPush, 6)
	// dropPeek sites
	nDrop := 0
	for _, site := range CallSites(funcs, drop.Obj) {
		nDrop++
		call := site.Node.(*ast.CallExpr)
		rn := ringOf(call)
		w := workers[rn]
		okIn := site.Fn.Key == w
		// result `more` drives continuation
		as, _ := enclosingStmt(site.Fn.Decl.Body, call).(*ast.AssignStmt)
		okMore := as != nil && len(as.Lhs) == 3 && exprStr(as.Lhs[1]) == "more"
		c.Check(okIn && okMore, rule, site.Fn.Key+": "+exprStr(call.Fun), call.Pos(), m, "dropPeek only in the ring's worker, continuing while more", "dropPeek on ring "+rn+" outside its worker "+w+" or its `more` result is not used")
	}
	c.Floor(rule+"#drops", nDrop, 5)
	// workers are started nowhere else
	for rn, w := range workers {
		wf := m.Func(w)
		if wf == nil {
			c.Undecided("anchor", w, 0, m, "worker not found")
			continue
		}
		for _, site := range CallSites(funcs, wf.Obj) {
			body := ast.Node(site.Fn.Decl.Body)
			if site.Lit != nil {
				body = site.Lit.Body
			}
			hasPush := false
			for _, p := range append(callsTo(body, site.Fn.Info(), push.Obj, false), callsTo(body, site.Fn.Info(), pushF.Obj, false)...) {
				if ringOf(p) == rn {
					hasPush = true
				}
			}
			c.Check(hasPush, rule, site.Fn.Key+": starts "+w, site.Node.Pos(), m, "", "worker "+w+" is started from a function that does not push on ring "+rn)
		}
	}
}

func c30latch(c *Ctx, m *Module) {
	rule := "work-latch-state-machine"
	// state touched only in the three methods
	sf := fieldMust(c, m, "workLoop", "state")
	if sf != nil {
		for _, f := range m.FuncsIn("kgo") {
			if len(readsOf(f.Decl.Body, f.Info(), sf, true)) == 0 {
				continue
			}
			ok := f.Key == "kgo.workLoop.maybeBegin" || f.Key == "kgo.workLoop.maybeFinish" || f.Key == "kgo.workLoop.hardFinish"
			c.Check(ok, rule, f.Key+"#state-access", f.Pos(), m, "", "workLoop.state is accessed outside its three methods")
		}
	}
	if f := c.NeedFunc(m, "kgo.workLoop.hardFinish"); f != nil {
		ok := len(f.Decl.Body.List) == 1 && nosp(nodeStr(f.Decl.Body.List[0])) == "l.state.Store(stateUnstarted)"
		c.Check(ok, rule, f.Key, f.Pos(), m, "unconditional Store(Unstarted)", "hardFinish does not unconditionally store stateUnstarted: after a signal arrived during the last pass (continue-working) the latch stays set with no worker, and every later maybeBegin returns false")
	}
	caseBody := func(f *Func, tag string) []string {
		var out []string
		ast.Inspect(f.Decl.Body, func(x ast.Node) bool {
			cc, ok := x.(*ast.CaseClause)
			if !ok || len(cc.List) != 1 || exprStr(cc.List[0]) != tag {
				return true
			}
			for _, s := range cc.Body {
				out = append(out, nosp(nodeStr(s)))
			}
			return true
		})
		return out
	}
	if f := c.NeedFunc(m, "kgo.workLoop.maybeBegin"); f != nil {
		a := strings.Join(caseBody(f, "stateUnstarted"), ";")
		b := strings.Join(caseBody(f, "stateWorking"), ";")
		d := strings.Join(caseBody(f, "stateContinueWorking"), ";")
		ok := a == "done=l.state.CompareAndSwap(state,stateWorking);state=stateWorking" &&
			b == "done=l.state.CompareAndSwap(state,stateContinueWorking);state=stateContinueWorking" &&
			d == "done=true"
		ret := ""
		if r, okr := f.Decl.Body.List[len(f.Decl.Body.List)-1].(*ast.ReturnStmt); okr {
			ret = nosp(nodeStr(r))
		}
		c.Check(ok && ret == "returnstate==stateWorking", rule, f.Key, f.Pos(), m, "Unstarted->Working (begin), Working->ContinueWorking, Continue stays; true iff this call started the work", "maybeBegin no longer implements the three-state transition table")
	}
	if f := c.NeedFunc(m, "kgo.workLoop.maybeFinish"); f != nil {
		a := strings.Join(caseBody(f, "stateWorking"), ";")
		b := strings.Join(caseBody(f, "stateContinueWorking"), ";")
		okA := false
		ast.Inspect(f.Decl.Body, func(x ast.Node) bool {
			if ifs, ok := x.(*ast.IfStmt); ok && nosp(exprStr(ifs.Cond)) == "!again" && len(ifs.Body.List) == 1 &&
				nosp(nodeStr(ifs.Body.List[0])) == "again=!l.state.CompareAndSwap(state,stateUnstarted)" {
				okA = true
			}
			return true
		})
		_ = a
		c.Check(okA && b == "l.state.Store(stateWorking);again=true", rule, f.Key, f.Pos(), m, "Working: finish unless again (CAS to Unstarted); Continue: back to Working and go again", "maybeFinish no longer implements the three-state transition table")
	}
	// users
	rule2 := "work-latch-users"
	mb := m.Func("kgo.workLoop.maybeBegin")
	mf := m.Func("kgo.workLoop.maybeFinish")
	hf := m.Func("kgo.workLoop.hardFinish")
	if mb == nil || mf == nil || hf == nil {
		return
	}
	funcs := m.FuncsIn("kgo")
	type user struct {
		worker *Func
		lit    *ast.FuncLit
		latch  string
	}
	var users []user
	nBegin := 0
	for _, site := range CallSites(funcs, mb.Obj) {
		nBegin++
		c.Touch(site.Fn)
		call := site.Node.(*ast.CallExpr)
		latch := nosp(exprStr(call.Fun.(*ast.SelectorExpr).X))
		// must be the condition of an if whose body spawns exactly one goroutine
		var ifs *ast.IfStmt
		ast.Inspect(site.Fn.Decl.Body, func(x ast.Node) bool {
			if i, ok := x.(*ast.IfStmt); ok && unparen(i.Cond) == ast.Expr(call) {
				ifs = i
			}
			return true
		})
		if ifs == nil {
			c.Fail(rule2, site.Fn.Key+": "+latch+".maybeBegin", call.Pos(), m, "maybeBegin's result is not the condition that spawns the worker")
			continue
		}
		var gos []*ast.GoStmt
		ast.Inspect(ifs.Body, func(x ast.Node) bool {
			if g, ok := x.(*ast.GoStmt); ok {
				gos = append(gos, g)
			}
			if _, isLit := x.(*ast.FuncLit); isLit {
				return false
			}
			return true
		})
		// goroutines inside nested literals are not worker spawns; look for the go statement at the if-body level
		var spawn *ast.GoStmt
		for _, st := range ifs.Body.List {
			if g, ok := st.(*ast.GoStmt); ok {
				if spawn != nil {
					spawn = nil
					break
				}
				spawn = g
			}
		}
		if spawn == nil {
			c.Fail(rule2, site.Fn.Key+": "+latch+".maybeBegin", call.Pos(), m, "maybeBegin() == true does not spawn exactly one worker goroutine")
			continue
		}
		c.OK(rule2, site.Fn.Key+": "+latch+".maybeBegin", call.Pos(), m, "spawns the worker under maybeBegin")
		if lit, ok := spawn.Call.Fun.(*ast.FuncLit); ok {
			users = append(users, user{site.Fn, lit, latch})
		} else if fn, ok := calleeObj(site.Fn.Info(), spawn.Call).(*types.Func); ok {
			if wf := m.Func(keyOfObj(fn)); wf != nil {
				users = append(users, user{wf, nil, latch})
			}
		}
	}
	c.Floor(rule2+"#begins", nBegin, 4)
	for _, u := range users {
		f := u.worker
		c.Touch(f)
		body := f.Decl.Body
		g := f.Graph()
		name := f.Key
		if u.lit != nil {
			body = u.lit.Body
			g = f.LitGraph(u.lit)
			name += "#worker-literal"
		}
		info := f.Info()
		spec := OnceSpec{
			Call: func(call *ast.CallExpr) Event {
				switch {
				case isCallTo(info, call, hf.Obj):
					return Event{Kind: EvOnce}
				case isCallTo(info, call, mf.Obj):
					return Event{Kind: EvCond, ResultIdx: 0, When: "false", Label: "maybeFinish"}
				}
				return Event{}
			},
			Expect: func(ret *ast.ReturnStmt) int {
				if ret == nil {
					return 1
				}
				l, ok := g.LocOf(ret)
				if !ok {
					return 1
				}
				// terminal share-consumer context: no worker is ever wanted again
				blk := g.C.Blocks[l.B]
				if cc, ok := blk.Stmt.(*ast.CommClause); ok && cc.Comm != nil {
					if es, ok := cc.Comm.(*ast.ExprStmt); ok && nosp(exprStr(es.X)) == "<-sc.fm.ctx.Done()" {
						return -1
					}
				}
				if factMatches(g.FactsAt(l), func(ft Fact) bool { return ft.Val && nosp(exprStr(ft.Cond)) == "sc.fm.ctx.Err()!=nil" }) {
					return -1
				}
				return 1
			},
		}
		r := CheckOnce(f, body, g, spec)
		c.Check(len(r.Problems) == 0 && r.Events >= 1, rule2, name+"#finishes-once", body.Pos(), m, fmt.Sprintf("every exit finished the latch exactly once (%d finish sites, %d exits)", r.Events, r.Exits),
			"worker exit without finishing the latch (or finishing twice): "+strings.Join(r.Problems, "; "))
	}
	c.Floor(rule2+"#workers", len(users), 4)
	_ = token.NoPos
}
