package main

import (
	"fmt"
	"go/ast"
	"go/token"
	"go/types"
	"strings"

	"golang.org/x/tools/go/cfg"
)

func init() {
	register(&Prop{
		ID:        "C07",
		Level:     "other",
		Technique: "closed table of user-callback invocation sites with must-pass-through rules on each site's control-flow graph (rebalance window, invalidate-before-revoke with the guard atom len(lost) > 0 evaluated three-valued on branch edges), dominance rules on the prerevoke/assign/revoke channel hand-offs, branch-fact rules on the heartbeat loop's returns, three-valued evaluation of the KIP-848 keepalive guard, wiring rules for the cooperative balancer",
		Explanation: "(1) cfg.onRevoked / cfg.onLost are invoked at exactly 6 sites (manageFailWait x2, abandonAssignment, groupConsumer.revoke x2, setupAssignedAndHeartbeat's downgrade arm) and cfg.onAssigned at 1 (assignRevokeSession.assign); every revoke/lost site is entered only after waitAndAddRebalance and left only through unaddRebalance (deferred accepted), with no unadd in between; the fields are read elsewhere only by the option/wrapper functions; " +
			"(2) invalidate-before-revoke: the eager/leaving site and the downgrade site are dominated by assignPartitions(nil, assignInvalidateAll); the cooperative site, whenever len(lost) > 0, is dominated by assignPartitions(lostOffsets, assignInvalidateMatching, g.tps) where lostOffsets is built from every partition of lost; the onLost sites and the context-cancelled revoke of manageFailWait pass assignPartitions(nil, assignInvalidateAll) before unaddRebalance; " +
			"(3) revoke-before-rejoin: groupConsumer.heartbeat returns only under didRevoke (set only by receiving from the channel returned by s.revoke) or for an error that is not RebalanceInProgress (then the manage loop runs onLost through manageFailWait / abandonAssignment before the next join); the assign goroutine waits for prerevokeDone before onAssigned, the revoke goroutine waits for assignDone before g.revoke, each done channel is closed by a first-statement defer of its own goroutine only; setupAssignedAndHeartbeat returns only after <-s.assignDone, <-fetchDone and the heartbeat goroutine's result; the eager site clears nowAssigned/lastAssigned after the callback, the cooperative rejoin signal is deferred only after the callback; manage / manage848 reach the next joinAndSync / initialJoin only with err == nil or through manageFailWait / abandonAssignment; a rejoin signal is received only by the heartbeat loop (turned into RebalanceInProgress) or drained before the join request / initial heartbeat is built from live state (never after); " +
			"KIP-848: while g848.prerevoking is set the heartbeat closure strips the request to a keepalive (Topics = nil) whatever else holds; prerevoking is set synchronously in prerevoke before setupAssignedAndHeartbeat spawns the heartbeat goroutine and cleared only after g.revoke returned; after a response changed the assignment (handleResp stores nowAssigned and returns it, the closure turns that into errReassigned848) the loop sends no further heartbeat in that session; mkreq acknowledges exactly nowAssigned; onAssigned receives diffAssigned's added set (now minus last), prerevoke its lost set; " +
			"(3b) completeness after partition growth: the leader's balanceGroup hands initExternal (which stores a copy) the very map it balances, no partition count is written to that map after the call, and the call lies on every path from the group-topics metadata fetch to Balance / BalanceOrError - otherwise topics only other members consume are not watched, their new partitions never trigger a rejoin and stay unowned; " +
			"(3c) a classic cooperative member that revoked lost partitions (len(lost) > 0, not leaving, stage revokeLastSession, not KIP-848) passes g.rejoin (a registered defer counts) on every path to revoke's exit, including the early return when nothing is uncommitted; " +
			"(4b) AdjustCooperative: for every topic a member currently owns its owned partitions are walked (no skip when nothing of the topic is planned), a topic absent from the member's plan has every owned partition recorded in the revoked set, and every revoked partition that another member was newly given leads to an update of that member's planned topic entry; " +
			"(4) cooperative wiring: stickyBalancer.Balance calls AdjustCooperative on every path when s.cooperative; IsCooperative, ProtocolName, JoinGroupMetadata's OwnedPartitions and the constructors agree; handleJoinResp stores the chosen balancer's IsCooperative into g.cooperative and manage848 stores true; the eager revoke passes the full assignment (g.nowAssigned.read()).",
		NotDecided:  "the broker half (coordinator generations, KIP-848 epochs; pkg/kfake/groups.go is not analysed: no simple structural rule was found for its pending-revocation bookkeeping), the balancers' outputs (AdjustCooperative's and diffAssigned's set arithmetic beyond the guard facts), convergence to a complete assignment, and timing (a revoke callback outliving the session timeout).",
		Assumptions: []string{"user callbacks return (OnPartitionsRevoked completing is what releases a partition)", "C41 lock/guard tables for nowAssigned / lastAssigned"},
		Run:         runC07,
	})
}

type c07x struct {
	c     *Ctx
	m     *Module
	funcs []*Func
}

func runC07(c *Ctx) {
	m := c.Load("")
	if m == nil {
		return
	}
	x := &c07x{c: c, m: m, funcs: m.FuncsIn("kgo")}
	c07scratch(c, m)
	x.callbackSites()
	x.revokeFn()
	x.sessionGoroutines()
	x.setupFn()
	x.heartbeatFn()
	x.manageLoops()
	x.rejoinSignal()
	x.kip848()
	x.diffAssigned()
	x.wiring()
	x.external()
	x.rejoinOnEveryExit()
	x.adjustCooperative()
}

func (x *c07x) fn(key string) *Func { return x.c.NeedFunc(x.m, key) }

// ---------------------------------------------------------------- helpers

const (
	c07kWait   = "kgo.consumer.waitAndAddRebalance"
	c07kUnadd  = "kgo.consumer.unaddRebalance"
	c07kAssign = "kgo.consumer.assignPartitions"
)

// c07now reports whether node n performs (now, not deferred, not in a
// spawned goroutine or nested literal) a call with the key satisfying pred.
func c07now(info *types.Info, n ast.Node, key string, pred func(*ast.CallExpr) bool) bool {
	switch n.(type) {
	case *ast.DeferStmt, *ast.GoStmt:
		return false
	}
	return containsNode(n, false, func(y ast.Node) bool {
		call, ok := y.(*ast.CallExpr)
		return ok && calleeName(info, call) == key && (pred == nil || pred(call))
	})
}

func c07invalidate(how string) func(*ast.CallExpr) bool {
	return func(call *ast.CallExpr) bool {
		return len(call.Args) == 4 && exprStr(call.Args[1]) == how
	}
}

func c07containsNode(n, target ast.Node) bool {
	switch n.(type) {
	case *ast.DeferStmt, *ast.GoStmt:
		return false
	}
	return containsNode(n, false, func(y ast.Node) bool { return y == target })
}

// c07edges prunes branch edges that contradict the given atom valuation.
func c07edges(f *Func, g *Graph, atoms map[string]tri) func(*cfg.Block, int, *cfg.Block) bool {
	env := &triEnv{f: f, atom: func(e ast.Expr) (tri, bool) {
		v, ok := atoms[nosp(exprStr(e))]
		return v, ok
	}}
	return func(from *cfg.Block, k int, to *cfg.Block) bool {
		cond, tag, ok := g.condOf(from)
		if !ok || tag != nil {
			return true
		}
		switch env.eval(cond) {
		case triT:
			return k != 1
		case triF:
			return k != 0
		}
		return true
	}
}

var c07anyExit = func(ExitKind, ast.Node) bool { return true }

// c07bodyOf returns the body (function or innermost literal) containing node.
func c07bodyOf(f *Func, node ast.Node) *ast.BlockStmt {
	if lit := innermostLit(f, node); lit != nil {
		return lit.Body
	}
	return f.Decl.Body
}

// ---------------------------------------------------------------- (1)(2) callback sites

type c07site struct {
	f    *Func
	call *ast.CallExpr
	cb   string // onRevoked / onLost / onAssigned
	ord  int
}

func (x *c07x) sites() []c07site {
	var out []c07site
	fields := map[string]*types.Var{}
	for _, n := range []string{"onRevoked", "onLost", "onAssigned"} {
		fields[n] = fieldMust(x.c, x.m, "cfg", n)
	}
	for _, f := range x.funcs {
		ord := map[string]int{}
		ast.Inspect(f.Decl.Body, func(y ast.Node) bool {
			call, ok := y.(*ast.CallExpr)
			if !ok {
				return true
			}
			fv := fieldOfSel(f.Info(), call.Fun)
			for n, v := range fields {
				if v != nil && sameField(fv, v) {
					ord[n]++
					out = append(out, c07site{f: f, call: call, cb: n, ord: ord[n]})
				}
			}
			return true
		})
	}
	return out
}

func (x *c07x) callbackSites() {
	c, m := x.c, x.m
	rule := "callback-sites"
	want := map[string]string{
		"kgo.groupConsumer.manageFailWait#onRevoked1":            "leave",
		"kgo.groupConsumer.manageFailWait#onLost1":               "lost",
		"kgo.groupConsumer.abandonAssignment#onLost1":            "lost",
		"kgo.groupConsumer.revoke#onRevoked1":                    "eager",
		"kgo.groupConsumer.revoke#onRevoked2":                    "cooperative",
		"kgo.groupConsumer.setupAssignedAndHeartbeat#onRevoked1": "downgrade",
		"kgo.assignRevokeSession.assign#onAssigned1":             "assign",
	}
	nRev := 0
	for _, s := range x.sites() {
		c.Touch(s.f)
		id := fmt.Sprintf("%s#%s%d", s.f.Key, s.cb, s.ord)
		kind, ok := want[id]
		if !ok {
			c.Fail(rule, id, s.call.Pos(), m, "the user callback cfg."+s.cb+" is invoked outside the confirmed table of sites: its ordering against invalidation, the rebalance window and the rejoin is not established")
			continue
		}
		c.OK(rule, id, s.call.Pos(), m, kind)
		if s.cb == "onAssigned" {
			continue
		}
		nRev++
		x.window(s, id)
		x.invalidate(s, id, kind)
	}
	c.Floor(rule, nRev, 6)
	// other readers of the callback fields
	allowed := map[string]bool{
		"kgo.consumer.initGroup": true, "kgo.cfg.validate": true, "kgo.Client.OptValues": true, "kgo.Client.OptValue": true,
		"kgo.NewGroupTransactSession": true, "kgo.OnPartitionsAssigned": true, "kgo.OnPartitionsRevoked": true, "kgo.OnPartitionsLost": true,
		"kgo.NewClient": true,
	}
	for _, n := range []string{"onRevoked", "onLost", "onAssigned"} {
		fv := m.Field("kgo", "cfg", n)
		if fv == nil {
			continue
		}
		for _, f := range x.funcs {
			if allowed[f.Key] {
				continue
			}
			pm := map[ast.Node]bool{}
			ast.Inspect(f.Decl.Body, func(y ast.Node) bool {
				if call, ok := y.(*ast.CallExpr); ok {
					pm[unparen(call.Fun)] = true
				}
				return true
			})
			for _, r := range readsOf(f.Decl.Body, f.Info(), fv, true) {
				if pm[r] {
					continue
				}
				c.Fail(rule, f.Key+": reads cfg."+n, r.Pos(), m, "cfg."+n+" is read (aliased or re-wrapped) outside the option / wrapper functions: the callback could be invoked through the alias outside the checked sites")
			}
		}
	}
}

// window: the site lies between waitAndAddRebalance and unaddRebalance.
func (x *c07x) window(s c07site, id string) {
	c, m := x.c, x.m
	rule := "callback-inside-rebalance-window"
	f := s.f
	info := f.Info()
	g := f.GraphFor(s.call)
	body := c07bodyOf(f, s.call)
	isWait := func(n ast.Node) bool { return c07now(info, n, c07kWait, nil) }
	isUnadd := func(n ast.Node) bool { return c07now(info, n, c07kUnadd, nil) }
	isSite := func(n ast.Node) bool { return c07containsNode(n, s.call) }
	sl, ok := g.LocOf(s.call)
	if !ok {
		c.Undecided(rule, id, s.call.Pos(), m, "site not located")
		return
	}
	var problems []string
	if p, found := g.FindPath(Loc{-1, 0}, SearchOpts{Stop: isWait, GoalNode: isSite}); found {
		problems = append(problems, "the callback is reachable without waitAndAddRebalance ("+pathStr(p)+"): with BlockRebalanceOnPoll it runs while a poll is still handing out (and the application is still processing and committing) records of the partitions being revoked")
	}
	for _, b := range g.C.Blocks {
		for i, nd := range b.Nodes {
			if !isUnadd(nd) {
				continue
			}
			if _, found := g.FindPath(Loc{int(b.Index), i}, SearchOpts{Stop: isWait, GoalNode: isSite}); found {
				problems = append(problems, "unaddRebalance at "+m.Position(nd.Pos())+" can run before the callback without a new waitAndAddRebalance: polls resume before the revoke finished")
			}
		}
	}
	deferred := false
	ast.Inspect(body, func(y ast.Node) bool {
		if _, ok := y.(*ast.FuncLit); ok {
			return false
		}
		d, ok := y.(*ast.DeferStmt)
		if !ok || calleeName(info, d.Call) != c07kUnadd {
			return true
		}
		if dl, ok := g.LocOf(d); ok && g.DominatesReg(dl, sl) {
			if _, found := g.FindPath(Loc{-1, 0}, SearchOpts{Stop: isWait, GoalNode: func(n ast.Node) bool { return n == ast.Node(d) }}); !found {
				deferred = true
			}
		}
		return true
	})
	if !deferred {
		if p, found := g.FindPath(sl, SearchOpts{Stop: isUnadd, GoalExit: c07anyExit}); found {
			problems = append(problems, "after the callback an exit is reachable without unaddRebalance ("+pathStr(p)+"): polls stay blocked forever")
		}
	}
	c.Check(len(problems) == 0, rule, id, s.call.Pos(), m, "between waitAndAddRebalance and unaddRebalance on all paths", strings.Join(problems, "; "))
}

// invalidate: buffered fetches of the revoked partitions are dropped before
// (or, for lost / leaving, within the same window as) the callback.
func (x *c07x) invalidate(s c07site, id, kind string) {
	c, m := x.c, x.m
	rule := "invalidate-before-revoke"
	f := s.f
	info := f.Info()
	g := f.GraphFor(s.call)
	isSite := func(n ast.Node) bool { return c07containsNode(n, s.call) }
	invAll := func(n ast.Node) bool { return c07now(info, n, c07kAssign, c07invalidate("assignInvalidateAll")) }
	sl, _ := g.LocOf(s.call)
	arg := ""
	if len(s.call.Args) == 3 {
		arg = nosp(exprStr(s.call.Args[2]))
	}
	switch kind {
	case "eager", "downgrade":
		p, found := g.FindPath(Loc{-1, 0}, SearchOpts{Stop: invAll, GoalNode: isSite})
		c.Check(!found, rule, id, s.call.Pos(), m, "assignPartitions(nil, assignInvalidateAll) on every path before the callback",
			"OnPartitionsRevoked for the whole assignment is reachable before the cursors are invalidated ("+pathStr(p)+"): buffered and in-flight fetches of the revoked partitions are still handed to polls while and after the callback commits - the member keeps consuming partitions it has released to the group")
		if kind == "eager" {
			facts := g.FactsAt(sl)
			okArm := factMatches(facts, func(ft Fact) bool { return ft.Val && strings.Contains(nosp(exprStr(ft.Cond)), "!g.cooperative.Load()") })
			c.Check(arg == "g.nowAssigned.read()" && okArm, "eager-revokes-everything", id, s.call.Pos(), m, "an eager (or leaving) member revokes its full assignment", "the eager / leaving revoke passes `"+arg+"` under ["+c04factsStr(facts)+"]: an eager member must give up its whole assignment before it rejoins")
			// forget the assignment before returning: the rejoin claims nothing
			forget := func(n ast.Node) bool {
				as, ok := n.(*ast.AssignStmt)
				return ok && len(as.Lhs) == 1 && nosp(exprStr(as.Lhs[0])) == "g.lastAssigned" && exprStr(as.Rhs[0]) == "nil"
			}
			store := func(n ast.Node) bool {
				return containsNode(n, false, func(y ast.Node) bool {
					call, ok := y.(*ast.CallExpr)
					return ok && nosp(exprStr(call.Fun)) == "g.nowAssigned.store" && len(call.Args) == 1 && exprStr(call.Args[0]) == "nil"
				})
			}
			_, l1 := g.FindPath(sl, SearchOpts{Stop: forget, GoalExit: c07anyExit})
			_, l2 := g.FindPath(sl, SearchOpts{Stop: store, GoalExit: c07anyExit})
			c.Check(!l1 && !l2, "eager-revokes-everything", id+"#forgets", s.call.Pos(), m, "nowAssigned and lastAssigned are cleared after the callback", "after an eager revoke the member keeps nowAssigned / lastAssigned: the next JoinGroup still claims the revoked partitions as owned")
		} else {
			d := c04single(f, c04obj(info, s.call.Args[2]))
			c.Check(d != nil && nosp(exprStr(d.rhs)) == "g.lastAssigned", "eager-revokes-everything", id, s.call.Pos(), m, "the downgrade revokes the whole previous assignment", "the downgrade revoke does not pass the whole previous assignment (g.lastAssigned)")
		}
	case "lost", "leave":
		p, found := g.FindPath(sl, SearchOpts{Stop: invAll, GoalExit: c07anyExit, GoalNode: func(n ast.Node) bool { return c07now(info, n, c07kUnadd, nil) }})
		c.Check(!found, rule, id, s.call.Pos(), m, "assignPartitions(nil, assignInvalidateAll) before polls are unblocked",
			"after the callback polls are unblocked (or the function returns) without invalidating all cursors ("+pathStr(p)+"): the member keeps fetching and returning records of partitions that now belong to other members")
		c.Check(arg == "g.nowAssigned.read()", "eager-revokes-everything", id, s.call.Pos(), m, "the whole current assignment is reported lost / revoked", "the callback is not given the whole current assignment")
	case "cooperative":
		// handled in revokeFn (needs the len(lost) > 0 atom)
	}
}

// ---------------------------------------------------------------- groupConsumer.revoke (cooperative arm)

func (x *c07x) revokeFn() {
	c, m := x.c, x.m
	f := x.fn("kgo.groupConsumer.revoke")
	if f == nil {
		return
	}
	info := f.Info()
	g := f.Graph()
	rule := "invalidate-before-revoke"
	var site *ast.CallExpr
	for _, s := range x.sites() {
		if s.f == f && s.cb == "onRevoked" && s.ord == 2 {
			site = s.call
		}
	}
	lost := c04param(f, "lost")
	if site == nil || lost == nil || len(site.Args) != 3 || c04obj(info, site.Args[2]) != lost {
		c.Undecided(rule, f.Key+"#onRevoked2", f.Pos(), m, "cooperative revoke site `g.cfg.onRevoked(ctx, cl, lost)` with the `lost` parameter not found")
		return
	}
	id := f.Key + "#onRevoked2"
	// the atom: `lost` is not reassigned once it has been tested
	var firstTest ast.Expr
	ast.Inspect(f.Decl.Body, func(y ast.Node) bool {
		if ifs, ok := y.(*ast.IfStmt); ok && firstTest == nil && nosp(exprStr(ifs.Cond)) == "len(lost)>0" {
			firstTest = ifs.Cond
		}
		return true
	})
	if firstTest == nil {
		c.Fail(rule, id, site.Pos(), m, "no `if len(lost) > 0` invalidation arm before the cooperative revoke callback")
		return
	}
	tl, _ := g.LocOf(firstTest)
	stable := true
	for _, d := range c04defs(f, lost) {
		if d.stmt.Pos() > firstTest.Pos() {
			stable = false
		}
		if l, ok := c04outerLoc(g, d.stmt); !ok || !g.Dominates(l, tl) {
			// definitions inside the switch arm do not dominate; they must at least precede and not be reachable again
			if _, back := g.FindPath(tl, SearchOpts{GoalNode: func(n ast.Node) bool {
				return c07containsNode(n, d.stmt) || containsNode(n, true, func(z ast.Node) bool { return z == d.stmt })
			}}); back {
				stable = false
			}
		}
	}
	c.Check(stable, rule, id+"#lost-stable", firstTest.Pos(), m, "`lost` is not modified between its tests", "`lost` is reassigned after `len(lost) > 0` was tested: the invalidated set and the revoked set can differ")
	isSite := func(n ast.Node) bool { return c07containsNode(n, site) }
	var invCall *ast.CallExpr
	invMatch := func(n ast.Node) bool {
		return c07now(info, n, c07kAssign, func(call *ast.CallExpr) bool {
			ok := len(call.Args) == 4 && exprStr(call.Args[1]) == "assignInvalidateMatching" && nosp(exprStr(call.Args[2])) == "g.tps"
			if ok {
				invCall = call
			}
			return ok
		})
	}
	nonEmpty := c07edges(f, g, map[string]tri{"len(lost)>0": triT, "len(lost)==0": triF})
	p, found := g.FindPath(Loc{-1, 0}, SearchOpts{Stop: invMatch, GoalNode: isSite, EdgeOK: nonEmpty})
	c.Check(!found, rule, id, site.Pos(), m, "whenever lost is non-empty, assignPartitions(lostOffsets, assignInvalidateMatching, g.tps) precedes the callback",
		"with a non-empty lost set OnPartitionsRevoked is reachable before the lost partitions are invalidated ("+pathStr(p)+"): buffered fetches of partitions the member is giving up are still returned by polls during and after the callback (and after its commit), while the next owner starts from the committed offset")
	// lostOffsets covers every partition of lost
	okCover := false
	if invCall == nil {
		ast.Inspect(f.Decl.Body, func(y ast.Node) bool { invMatch(y); return invCall == nil })
	}
	if invCall != nil {
		lo := c04obj(info, invCall.Args[0])
		ast.Inspect(f.Decl.Body, func(y ast.Node) bool {
			outer, ok := y.(*ast.RangeStmt)
			if !ok || c04obj(info, outer.X) != lost || outer.Key == nil || outer.Value == nil {
				return true
			}
			var inner *ast.RangeStmt
			var innerMap types.Object
			storeOuter := false
			for _, st := range outer.Body.List {
				switch s := st.(type) {
				case *ast.RangeStmt:
					if c04obj(info, s.X) == c04obj(info, outer.Value) && s.Value != nil && len(s.Body.List) == 1 {
						if as, ok := s.Body.List[0].(*ast.AssignStmt); ok && len(as.Lhs) == 1 {
							if ix, ok := as.Lhs[0].(*ast.IndexExpr); ok && c04obj(info, ix.Index) == c04obj(info, s.Value) {
								inner, innerMap = s, c04obj(info, ix.X)
							}
						}
					}
				case *ast.AssignStmt:
					if len(s.Lhs) == 1 {
						if ix, ok := s.Lhs[0].(*ast.IndexExpr); ok && c04obj(info, ix.X) == lo && c04obj(info, ix.Index) == c04obj(info, outer.Key) && innerMap != nil && c04obj(info, s.Rhs[0]) == innerMap {
							storeOuter = true
						}
					}
				case *ast.IfStmt, *ast.BranchStmt:
					inner = nil
					innerMap = nil
				}
			}
			if inner != nil && storeOuter {
				okCover = true
			}
			return true
		})
	}
	c.Check(okCover, rule, id+"#covers-lost", site.Pos(), m, "lostOffsets holds every (topic, partition) of lost", "the invalidated set is not built from every topic and partition of `lost`: some revoked partitions keep their buffered fetches and cursors")
	// the rejoin signal is deferred only after the callback
	rule3 := "revoke-before-rejoin"
	n := 0
	ast.Inspect(f.Decl.Body, func(y ast.Node) bool {
		var call *ast.CallExpr
		var node ast.Node
		switch s := y.(type) {
		case *ast.DeferStmt:
			call, node = s.Call, s
		case *ast.ExprStmt:
			call, _ = s.X.(*ast.CallExpr)
			node = s
		}
		if call == nil || calleeName(info, call) != "kgo.groupConsumer.rejoin" {
			return true
		}
		n++
		anySite := func(nd ast.Node) bool {
			for _, s := range x.sites() {
				if s.f == f && c07containsNode(nd, s.call) {
					return true
				}
			}
			return false
		}
		bad := false
		var path []ast.Node
		for _, val := range []map[string]tri{{"len(lost)>0": triT, "len(lost)==0": triF}, {"len(lost)>0": triF, "len(lost)==0": triT}} {
			if p, found := g.FindPath(Loc{-1, 0}, SearchOpts{Stop: anySite, GoalNode: func(nd ast.Node) bool { return nd == node }, EdgeOK: c07edges(f, g, val)}); found {
				bad, path = true, p
			}
		}
		c.Check(!bad, rule3, fmt.Sprintf("%s: g.rejoin #%d", f.Key, n), call.Pos(), m, "the cooperative rejoin is signalled only after OnPartitionsRevoked returned", "the rejoin signal can be raised without the revoke callback having run ("+pathStr(path)+"): the second join of the cooperative rebalance frees the lost partitions for other members while this member is still revoking them")
		return true
	})
	c.Floor(rule3+"#rejoin-in-revoke", n, 1)
}

// c07scratch: in the range balancer (the one balancer with a per-topic
// "already assigned" bitmap) every element-written scratch slice of the
// per-topic loop is freshly made inside the iteration.  State that survives
// from one topic to the next makes partitions of the next topic look assigned:
// they end up owned by no member although the group is stable.
func c07scratch(c *Ctx, m *Module) {
	rule := "balancer-per-topic-scratch-fresh"
	f := c.NeedFunc(m, "kgo.rangeBalancer.Balance")
	if f == nil {
		return
	}
	info := f.Info()
	// the per-topic loop: the outermost range statement whose body calls AddPartition
	var loop *ast.RangeStmt
	for _, st := range f.Decl.Body.List {
		if rs, ok := st.(*ast.RangeStmt); ok && containsNode(rs.Body, true, func(y ast.Node) bool {
			call, ok := y.(*ast.CallExpr)
			return ok && strings.HasSuffix(nosp(exprStr(call.Fun)), ".AddPartition")
		}) {
			loop = rs
		}
	}
	if loop == nil {
		c.Undecided(rule, f.Key+"#per-topic loop", f.Pos(), m, "the per-topic loop (range ... { ... AddPartition ... }) was not found")
		return
	}
	// slices written by element inside the loop
	written := map[types.Object]ast.Node{}
	ast.Inspect(loop.Body, func(x ast.Node) bool {
		var target ast.Expr
		switch s := x.(type) {
		case *ast.AssignStmt:
			for _, l := range s.Lhs {
				if ix, ok := l.(*ast.IndexExpr); ok {
					target = ix.X
				}
			}
		case *ast.IncDecStmt:
			if ix, ok := s.X.(*ast.IndexExpr); ok {
				target = ix.X
			}
		}
		if id, ok := target.(*ast.Ident); ok {
			if o := info.Uses[id]; o != nil {
				if _, isSlice := o.Type().Underlying().(*types.Slice); isSlice {
					written[o] = x
				}
			}
		}
		return true
	})
	n := 0
	for o, site := range written {
		n++
		// declared by `x := make(...)` as a direct statement of the loop body
		fresh := false
		for _, st := range loop.Body.List {
			as, ok := st.(*ast.AssignStmt)
			if !ok || as.Tok != token.DEFINE || len(as.Lhs) != 1 || len(as.Rhs) != 1 {
				continue
			}
			id, ok := as.Lhs[0].(*ast.Ident)
			if !ok || info.Defs[id] != o {
				continue
			}
			if call, ok := as.Rhs[0].(*ast.CallExpr); ok && exprStr(call.Fun) == "make" {
				fresh = true
			}
		}
		c.Check(fresh, rule, f.Key+": "+o.Name()+" is made inside the per-topic iteration", site.Pos(), m, "", "the scratch slice `"+o.Name()+"` that marks partitions/consumers while a topic is balanced is not freshly made for every topic: marks of the previous topic survive, its partitions are skipped for the next topic and stay assigned to no member")
	}
	c.Floor(rule+"/scratch-slices", n, 2)
}
