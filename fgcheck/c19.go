package main

import (
	"fmt"
	"go/ast"
	"go/constant"
	"go/token"
	"go/types"
	"os"
	"sort"
	"strings"
)

func init() {
	register(&Prop{
		ID:        "C19",
		Level:     "other",
		Technique: "sibling agreement of the per-codec switch arms in DefaultCompressor / compressor.Compress / decompressor.Decompress (arm exists, arm uses its codec's library, pool type and discipline); per-sink bound rules for every decoding sink (LimitReader+count test, DecodedLen guard, cumulative xerial budget, zstd WithDecoderMaxMemory); branch-fact reachability for the zstd gate; probe-validated level rule for error-discarding pool constructors; dominating-guard bounds proof of every index/slice/make in compression.go",
		Explanation: "(1) codec-arms: every typed CompressionCodecType constant has an arm in the codec switches of DefaultCompressor, compressor.Compress and decompressor.Decompress (CodecNone in Decompress may be the leading `if codecType == CodecNone { return src, nil }`); DefaultCompressor's validity range equals [min,max] of the constants; Decompress's default arm returns an error; " +
			"(2) codec-library: each arm references exactly the codec library of its constant (gzip, s2, lz4, zstd) and the compress and decompress arm of one constant agree; snappy is written with a snappy-compatible s2 encoder; Compress reports the switch tag as the used codec (or CodecError with nil data, or the arm's own constant); the produce path ORs the reported codec into the batch attributes only when the compressed bytes are used, and the fetch path masks the attributes with an all-ones mask that covers every codec valid for that format; " +
			"(3) decompress-bounded: every decoding sink in Decompress and xerialDecode has its bound: io.Copy reads from io.LimitReader(_, maxDecompressedSize+1) and every success return after it holds n <= maxDecompressedSize and err == nil; s2.Decode is dominated by s2.DecodedLen of the same source with int64(l) <= maxDecompressedSize, and inside a loop that accumulates the chunks by int64(l) <= maxDecompressedSize - int64(len(ACC)) where ACC is the accumulator that is appended to and returned; zstd DecodeAll runs on a decoder from a pool whose constructor passes WithDecoderMaxMemory(uint64(maxDecompressedSize)); unknown codec-library calls are undecided; each arm has at least one sink; " +
			"(4) zstd-gate: in compressor.Compress every store to the switch tag takes the range variable of c.options at a point where `option == CodecZstd && disableZstd` is known false; disableZstd is set (only to true) under flag == CompressDisableZstd while ranging over all flags without early exit; " +
			"(5) level-validated: a constructor call in a pool New closure whose error is discarded and whose arguments depend on the user supplied level is reachable only with a level that passed a probe call of the same constructor with the same expression (err == nil), or (gzip) lies within [gzip.HuffmanOnly, gzip.BestCompression]; " +
			"(6) pool-discipline (Compress, Decompress and every function of package kgo that takes a buffer from the shared byteBuffers pool - sink appendTo/appendToAsMessageSet, the basic logger; a Get that is not a plain `x := byteBuffers.Get().(T)` in the function body is undecided): each pool.Get().(T) asserts the type the pool's New returns, is followed on every path by defer Put of the same object to the same pool, streaming readers/writers and buffers are Reset (buffers: Reset or Truncate(0); writers onto dst, readers onto src) before any other use on every path (a Reset inside a deferred closure does not count), writers are Closed with every Write/Close error checked before dst.Bytes() is read, and the whole src is written; " +
			"(6b) attrs-reset: every read-modify-write store (|= ...) to recBatch.attrs is dominated in the same call by a plain store that does not read the field, so codec bits of an earlier serialisation of the shared batch never mix with the codec reported now; compress-dst-fresh: at every call site of Compressor.Compress the dst argument is a fresh buffer expression or a local variable whose last event on every path is a fresh construction or Reset()/Truncate(0) (no write, pool Get or earlier Compress in between); " +
			"(7) compression-bounds: every index, slice, binary.BigEndian call and make in xerialDecode, Decompress, Compress, DefaultCompressor and DefaultDecompressor is proven in bounds from dominating guards (xerialDecode under the entry fact len(src) >= 16 which is proven at every call site; the de-duplication loop by the compaction-loop invariant keepIdx <= iteration index).",
		NotDecided: "value-level round trips (that decompress(compress(x)) == x), interoperability of the produced bytes with other implementations beyond the choice of library entry point, the behaviour of the codec libraries themselves (that LimitReader, DecodedLen and WithDecoderMaxMemory bound what they are documented to bound, that Reset fully clears reader/writer state), user supplied Compressor/Decompressor/Pool implementations, and the non-emptiness of compressor.options after de-duplication (argued by hand, recorded as an exemption).",
		Assumptions: []string{
			"library contracts: io.LimitReader(r, n) yields at most n bytes; s2.Decode allocates/writes exactly s2.DecodedLen(src) bytes; zstd.Decoder.DecodeAll fails with ErrDecoderSizeExceeded beyond WithDecoderMaxMemory; gzip.NewWriterLevel fails exactly outside [HuffmanOnly, BestCompression]",
			"Go int does not overflow in the index arithmetic of compression.go",
		},
		Run: runC19,
	})
}

const (
	c19PathGzip = "compress/gzip"
	c19PathS2   = "github.com/klauspost/compress/s2"
	c19PathZstd = "github.com/klauspost/compress/zstd"
	c19PathLz4  = "github.com/pierrec/lz4/v4"
)

// codec constant name -> library package path (rule table, confirmed on the pinned tree)
var c19LibOf = map[string]string{
	"CodecGzip":   c19PathGzip,
	"CodecSnappy": c19PathS2,
	"CodecLz4":    c19PathLz4,
	"CodecZstd":   c19PathZstd,
}

type c19env struct {
	c      *Ctx
	m      *Module
	codecT types.Type
	names  map[int64]string // value -> constant name
	vals   []int64
	maxVar types.Object
	funcs  []*Func
}

func c19isCodecLib(path string) bool {
	for _, s := range []string{"compress", "snappy", "lz4", "zstd", "gzip", "flate", "zlib", "/s2", "brotli", "/xz"} {
		if strings.Contains(path, s) {
			return true
		}
	}
	return false
}

// c19libs returns the codec library package paths referenced under root,
// following calls into kgo functions (once each).
func (e *c19env) libs(f *Func, root ast.Node, seen map[string]bool, out map[string]bool) {
	info := f.Info()
	ast.Inspect(root, func(x ast.Node) bool {
		switch n := x.(type) {
		case *ast.Ident:
			o := info.Uses[n]
			if o != nil && o.Pkg() != nil && c19isCodecLib(o.Pkg().Path()) {
				out[o.Pkg().Path()] = true
			}
			if fn, ok := o.(*types.Func); ok && fn.Pkg() != nil && fn.Pkg().Name() == "kgo" {
				k := keyOfObj(fn)
				if g := e.m.Func(k); g != nil && !seen[k] {
					seen[k] = true
					e.libs(g, g.Decl.Body, seen, out)
				}
			}
		case *ast.SelectorExpr:
			if s := info.Selections[n]; s != nil && s.Obj().Pkg() != nil && c19isCodecLib(s.Obj().Pkg().Path()) {
				out[s.Obj().Pkg().Path()] = true
			}
		}
		return true
	})
}

// codecSwitch finds the tag switch over CompressionCodecType in the function's own body.
func (e *c19env) codecSwitch(f *Func) *ast.SwitchStmt {
	var sw *ast.SwitchStmt
	n := 0
	for _, x := range findNodes(f.Decl.Body, false, func(x ast.Node) bool {
		s, ok := x.(*ast.SwitchStmt)
		if !ok || s.Tag == nil {
			return false
		}
		t := f.Info().TypeOf(s.Tag)
		return t != nil && types.Identical(t, e.codecT)
	}) {
		sw = x.(*ast.SwitchStmt)
		n++
	}
	if n != 1 {
		return nil
	}
	return sw
}

func (e *c19env) arms(f *Func, sw *ast.SwitchStmt) (map[int64]*ast.CaseClause, *ast.CaseClause) {
	arms := map[int64]*ast.CaseClause{}
	var def *ast.CaseClause
	for _, s := range sw.Body.List {
		cc := s.(*ast.CaseClause)
		if cc.List == nil {
			def = cc
			continue
		}
		for _, ce := range cc.List {
			if v, ok := constInt(f.Info(), ce); ok {
				arms[v] = cc
			}
		}
	}
	return arms, def
}

func c19isNil(info *types.Info, e ast.Expr) bool {
	tv, ok := info.Types[e]
	return ok && tv.IsNil()
}

func c19objOf(info *types.Info, e ast.Expr) types.Object {
	id, ok := unparen(e).(*ast.Ident)
	if !ok {
		return nil
	}
	if o := info.Uses[id]; o != nil {
		return o
	}
	return info.Defs[id]
}

// c19strip removes value conversions T(x).
func c19strip(info *types.Info, e ast.Expr) ast.Expr {
	for {
		e = unparen(e)
		call, ok := e.(*ast.CallExpr)
		if !ok || len(call.Args) != 1 {
			return e
		}
		if tv, ok := info.Types[call.Fun]; !ok || !tv.IsType() {
			return e
		}
		e = call.Args[0]
	}
}

type c19rel struct{ a, b ast.Expr } // a <= b

// c19upper extracts a <= b relations from branch facts.
func c19upper(facts []Fact) []c19rel {
	var out []c19rel
	for _, f := range facts {
		if f.Tag != nil {
			continue
		}
		be, ok := unparen(f.Cond).(*ast.BinaryExpr)
		if !ok {
			continue
		}
		switch {
		case be.Op == token.GTR && !f.Val, be.Op == token.LEQ && f.Val, be.Op == token.LSS && f.Val, be.Op == token.GEQ && !f.Val:
			out = append(out, c19rel{be.X, be.Y})
		case be.Op == token.LSS && !f.Val, be.Op == token.GEQ && f.Val, be.Op == token.GTR && f.Val, be.Op == token.LEQ && !f.Val:
			out = append(out, c19rel{be.Y, be.X})
		}
	}
	return out
}

// c19errNilFact: facts contain err == nil for the given error object.
func c19errNil(info *types.Info, facts []Fact, errObj types.Object) bool {
	if errObj == nil {
		return false
	}
	return factMatches(facts, func(ft Fact) bool {
		be, ok := unparen(ft.Cond).(*ast.BinaryExpr)
		if !ok || ft.Tag != nil {
			return false
		}
		var other ast.Expr
		if c19objOf(info, be.X) == errObj {
			other = be.Y
		} else if c19objOf(info, be.Y) == errObj {
			other = be.X
		} else {
			return false
		}
		if !c19isNil(info, other) {
			return false
		}
		return be.Op == token.NEQ && !ft.Val || be.Op == token.EQL && ft.Val
	})
}

func runC19(c *Ctx) {
	m := c.Load("")
	if m == nil {
		return
	}
	e := &c19env{c: c, m: m, names: map[int64]string{}}
	tn := m.Object("kgo", "CompressionCodecType")
	e.maxVar = m.Object("kgo", "maxDecompressedSize")
	if tn == nil || e.maxVar == nil {
		c.Undecided("anchor", "kgo.CompressionCodecType/maxDecompressedSize", token.NoPos, m, "anchor objects not found")
		return
	}
	e.codecT = tn.Type()
	scope := m.Pkg("kgo").Types.Scope()
	for _, n := range scope.Names() {
		if k, ok := scope.Lookup(n).(*types.Const); ok && types.Identical(k.Type(), e.codecT) {
			if v, ok := constantInt64(k); ok {
				e.names[v] = n
				e.vals = append(e.vals, v)
			}
		}
	}
	sort.Slice(e.vals, func(i, j int) bool { return e.vals[i] < e.vals[j] })
	c.Floor("codec-constants", len(e.vals), 5)
	e.funcs = m.FuncsIn("kgo")

	fDC := c.NeedFunc(m, "kgo.DefaultCompressor")
	fC := c.NeedFunc(m, "kgo.compressor.Compress")
	fD := c.NeedFunc(m, "kgo.decompressor.Decompress")
	fX := c.NeedFunc(m, "kgo.xerialDecode")
	fDD := c.NeedFunc(m, "kgo.DefaultDecompressor")
	if fDC == nil || fC == nil || fD == nil || fX == nil || fDD == nil {
		return
	}
	e.ruleArms(fDC, fC, fD)
	e.ruleLibrary(fC, fD)
	e.ruleAttrs()
	e.ruleBounded(fD, fX)
	e.ruleGate(fC)
	e.ruleLevel(fDC)
	e.rulePools(fC, fD)
	e.ruleBounds(fD, fX)
	e.ruleAttrsReset()
	e.ruleCompressDst()
	c19dump(c)
}

func constantInt64(k *types.Const) (int64, bool) {
	v := constant.ToInt(k.Val())
	if v.Kind() != constant.Int {
		return 0, false
	}
	return constant.Int64Val(v)
}

// c19dump prints every obligation when FGCHECK_DUMP is set (debugging aid).
func c19dump(c *Ctx) {
	if os.Getenv("FGCHECK_DUMP") == "" {
		return
	}
	for _, o := range c.Obs {
		fmt.Printf("  %-10s %-22s %-70s %s | %s\n", o.Verdict, o.Rule, o.Construct, o.Pos, o.Detail)
	}
}
