package main

import (
	"fmt"
	"go/ast"
	"go/token"
	"go/types"
	"strings"
)

// ---- (4) zstd-gate ----

func c19conj(x ast.Expr, out []ast.Expr) []ast.Expr {
	if b, ok := unparen(x).(*ast.BinaryExpr); ok && b.Op == token.LAND {
		return c19conj(b.Y, c19conj(b.X, out))
	}
	return append(out, unparen(x))
}

func (e *c19env) ruleGate(f *Func) {
	c, m := e.c, e.m
	rule := "zstd-gate"
	info := f.Info()
	g := f.Graph()
	sw := e.codecSwitch(f)
	if sw == nil {
		return
	}
	var zstdVal int64 = -1
	for v, nme := range e.names {
		if nme == "CodecZstd" {
			zstdVal = v
		}
	}
	flagConst := m.Object("kgo", "CompressDisableZstd")
	optField := m.Field("kgo", "compressor", "options")
	tag := c19objOf(info, sw.Tag)
	if tag == nil || flagConst == nil || optField == nil || zstdVal < 0 {
		c.Undecided(rule, f.Key+"#anchors", f.Pos(), m, "switch tag variable, CompressDisableZstd, compressor.options or CodecZstd not found")
		return
	}
	// range loops
	rangeVar := func(obj types.Object) *ast.RangeStmt {
		var out *ast.RangeStmt
		ast.Inspect(f.Decl.Body, func(x ast.Node) bool {
			if rs, ok := x.(*ast.RangeStmt); ok && rs.Value != nil && c19objOf(info, rs.Value) == obj && obj != nil {
				out = rs
			}
			return true
		})
		return out
	}
	isZstdEq := func(x ast.Expr, opt types.Object) bool {
		b, ok := unparen(x).(*ast.BinaryExpr)
		if !ok || b.Op != token.EQL {
			return false
		}
		for _, p := range [][2]ast.Expr{{b.X, b.Y}, {b.Y, b.X}} {
			if c19objOf(info, p[0]) == opt {
				if v, ok := constInt(info, p[1]); ok && v == zstdVal {
					return true
				}
			}
		}
		return false
	}
	var disable types.Object
	nStores := 0
	for _, x := range findNodes(f.Decl.Body, true, func(x ast.Node) bool { _, ok := x.(*ast.AssignStmt); return ok }) {
		as := x.(*ast.AssignStmt)
		for i, l := range as.Lhs {
			if c19objOf(info, l) != tag {
				continue
			}
			nStores++
			cons := fmt.Sprintf("%s#select-%d", f.Key, nStores)
			if len(as.Rhs) != len(as.Lhs) {
				c.Undecided(rule, cons, as.Pos(), m, "multi-value store to the selected codec")
				continue
			}
			opt := c19objOf(info, as.Rhs[i])
			rs := rangeVar(opt)
			if rs == nil || !sameField(fieldOfSel(info, rs.X), optField) {
				// a constant store is fine when it is not zstd
				if v, ok := constInt(info, as.Rhs[i]); ok && v != zstdVal {
					c.OK(rule, cons, as.Pos(), m, "constant non-zstd codec")
					continue
				}
				c.Fail(rule, cons, as.Pos(), m, "the selected codec is stored from `"+exprStr(as.Rhs[i])+"`, which is not the range variable over c.options: the zstd gate cannot be established")
				continue
			}
			l2, _ := g.LocOf(as)
			gated := false
			for _, ft := range g.FactsAt(l2) {
				if ft.Tag != nil {
					if c19objOf(info, ft.Tag) == opt && ft.Val {
						if v, ok := constInt(info, ft.Cond); ok && v != zstdVal {
							gated = true
						}
					}
					continue
				}
				if ft.Val {
					if b, ok := unparen(ft.Cond).(*ast.BinaryExpr); ok && b.Op == token.NEQ {
						eq := &ast.BinaryExpr{X: b.X, Op: token.EQL, Y: b.Y}
						if isZstdEq(eq, opt) {
							gated = true
						}
					}
					continue
				}
				cj := c19conj(ft.Cond, nil)
				all := len(cj) > 0
				for _, a := range cj {
					if isZstdEq(a, opt) {
						continue
					}
					if o := c19objOf(info, a); o != nil {
						if bt, ok := o.Type().Underlying().(*types.Basic); ok && bt.Kind() == types.Bool && (disable == nil || disable == o) {
							if _, isVar := o.(*types.Var); isVar && strings.Contains(strings.ToLower(o.Name()), "zstd") {
								disable = o
								continue
							}
						}
					}
					all = false
				}
				if all {
					gated = true
				}
			}
			c.Check(gated, rule, cons, as.Pos(), m, "unreachable with option == CodecZstd && disableZstd",
				"the codec selection `"+nodeStr(as)+"` is reachable with option == CodecZstd while CompressDisableZstd was passed: zstd batches are sent to brokers that do not support them")
		}
	}
	c.Floor(rule+"/select", nStores, 1)
	if disable == nil {
		c.Fail(rule, f.Key+"#disable-flag", f.Pos(), m, "no boolean disable-zstd variable takes part in the gate")
		return
	}
	// stores to the disable flag
	nd := 0
	for _, x := range findNodes(f.Decl.Body, true, func(x ast.Node) bool { _, ok := x.(*ast.AssignStmt); return ok }) {
		as := x.(*ast.AssignStmt)
		for i, l := range as.Lhs {
			if c19objOf(info, l) != disable || as.Tok == token.DEFINE && len(as.Rhs) != len(as.Lhs) {
				continue
			}
			nd++
			cons := fmt.Sprintf("%s#disable-store-%d", f.Key, nd)
			bv, isC := constBool(info, as.Rhs[i])
			if !isC {
				c.Undecided(rule, cons, as.Pos(), m, "non-constant store to the disable flag")
				continue
			}
			if !bv {
				c.Fail(rule, cons, as.Pos(), m, "the disable flag is reset to false: a CompressDisableZstd passed earlier is forgotten")
				continue
			}
			l2, _ := g.LocOf(as)
			var loop *ast.RangeStmt
			okFact := factMatches(g.FactsAt(l2), func(ft Fact) bool {
				var a, b ast.Expr
				if ft.Tag != nil {
					if !ft.Val {
						return false
					}
					a, b = ft.Tag, ft.Cond
				} else {
					be, ok := unparen(ft.Cond).(*ast.BinaryExpr)
					if !ok || !(be.Op == token.EQL && ft.Val || be.Op == token.NEQ && !ft.Val) {
						return false
					}
					a, b = be.X, be.Y
				}
				for _, p := range [][2]ast.Expr{{a, b}, {b, a}} {
					if c19objOf(info, p[1]) == flagConst {
						if rs := rangeVar(c19objOf(info, p[0])); rs != nil && c19objOf(info, rs.X) == e.param(f, 2) {
							loop = rs
							return true
						}
					}
				}
				return false
			})
			if !okFact {
				c.Fail(rule, cons, as.Pos(), m, "disableZstd = true is not guarded by flag == CompressDisableZstd for a flag ranging over the flags argument")
				continue
			}
			// no early exit of the flag loop other than after the store
			early := false
			ast.Inspect(loop.Body, func(y ast.Node) bool {
				switch s := y.(type) {
				case *ast.ReturnStmt:
					early = true
				case *ast.BranchStmt:
					if s.Pos() < as.Pos() || s.Tok == token.GOTO {
						early = true
					}
				case *ast.FuncLit:
					return false
				}
				return true
			})
			c.Check(!early, rule, cons, as.Pos(), m, "set under flag == CompressDisableZstd, all flags examined", "the flag loop can be left before CompressDisableZstd is seen")
		}
	}
	// the declaration must not initialise the flag to a non-false value
	c.Check(nd >= 1, rule, f.Key+"#disable-set", f.Pos(), m, "", "CompressDisableZstd is never recorded: the gate condition is always false")
}

// ---- (5) level-validated ----

func (e *c19env) ruleLevel(f *Func) {
	c, m := e.c, e.m
	rule := "level-validated"
	info := f.Info()
	g := f.Graph()
	levelFld := m.Field("kgo", "CompressionCodec", "level")
	if levelFld == nil {
		c.Undecided(rule, f.Key+"#anchor", f.Pos(), m, "CompressionCodec.level not found")
		return
	}
	// taint: expressions depending on the user level
	tainted := map[types.Object]bool{}
	isT := func(x ast.Node) bool {
		return containsNode(x, true, func(y ast.Node) bool {
			if ex, ok := y.(ast.Expr); ok && sameField(fieldOfSel(info, ex), levelFld) {
				return true
			}
			if id, ok := y.(*ast.Ident); ok {
				return tainted[info.Uses[id]]
			}
			return false
		})
	}
	type tas struct {
		as  *ast.AssignStmt
		rhs ast.Expr
	}
	stores := map[types.Object][]tas{}
	for changed := true; changed; {
		changed = false
		stores = map[types.Object][]tas{}
		ast.Inspect(f.Decl.Body, func(x ast.Node) bool {
			as, ok := x.(*ast.AssignStmt)
			if !ok {
				return true
			}
			for i, l := range as.Lhs {
				o := c19objOf(info, l)
				if o == nil {
					continue
				}
				r := as.Rhs[0]
				if len(as.Rhs) == len(as.Lhs) {
					r = as.Rhs[i]
				}
				if _, isLit := unparen(r).(*ast.FuncLit); isLit {
					continue
				}
				if isT(r) {
					stores[o] = append(stores[o], tas{as, r})
					if !tainted[o] {
						tainted[o] = true
						changed = true
					}
				}
			}
			return true
		})
	}
	// pool New literals of the compressor
	var lits []c19lit
	for _, fld := range []string{"gzPool", "lz4Pool", "zstdPool"} {
		fv := m.Field("kgo", "compressor", fld)
		if fv == nil {
			continue
		}
		for _, s := range StoreSites([]*Func{f}, fv) {
			sel := &ast.SelectorExpr{}
			_ = sel
			if s.LHS == nil {
				continue
			}
			ls, ok := e.poolNews(s.LHS)
			if !ok {
				c.Undecided(rule, f.Key+": "+fld, s.Node.Pos(), m, "pool constructor not resolved")
				continue
			}
			lits = append(lits, ls...)
			break
		}
	}
	// probe-success fact: err == nil where err is defined by a call of callee with an argument whose text is want
	probed := func(at ast.Node, callee types.Object, want []string) bool {
		l, ok := g.LocOf(at)
		if !ok {
			return false
		}
		for _, ft := range g.FactsAt(l) {
			be, ok := unparen(ft.Cond).(*ast.BinaryExpr)
			if !ok || ft.Tag != nil {
				continue
			}
			if !(be.Op == token.EQL && ft.Val || be.Op == token.NEQ && !ft.Val) || !c19isNil(info, be.Y) {
				continue
			}
			eo := c19objOf(info, be.X)
			if eo == nil {
				continue
			}
			// defining call of err
			var def *ast.CallExpr
			ast.Inspect(f.Decl.Body, func(x ast.Node) bool {
				as, ok := x.(*ast.AssignStmt)
				if !ok || len(as.Rhs) != 1 {
					return true
				}
				if call, ok := unparen(as.Rhs[0]).(*ast.CallExpr); ok && info.Defs[c19identOf(as.Lhs[len(as.Lhs)-1])] == eo {
					def = call
				}
				return true
			})
			if def == nil || !sameObj(calleeObj(info, def), callee) {
				continue
			}
			for _, a := range def.Args {
				for _, w := range want {
					if exprStr(a) == w {
						return true
					}
				}
			}
		}
		return false
	}
	n := 0
	seen := map[*ast.FuncLit]bool{}
	for _, pl := range lits {
		if seen[pl.lit] {
			continue
		}
		seen[pl.lit] = true
		for _, x := range findNodes(pl.lit.Body, false, func(x ast.Node) bool { _, ok := x.(*ast.CallExpr); return ok }) {
			call := x.(*ast.CallExpr)
			fn, _ := calleeObj(info, call).(*types.Func)
			if fn == nil || fn.Pkg() == nil || !c19isCodecLib(fn.Pkg().Path()) {
				continue
			}
			sig := fn.Type().(*types.Signature)
			if sig.Results().Len() == 0 || sig.Results().At(sig.Results().Len()-1).Type().String() != "error" {
				continue
			}
			// error discarded?
			discarded := false
			switch st := enclosingStmt(pl.lit.Body, call).(type) {
			case *ast.ExprStmt:
				discarded = unparen(st.X) == ast.Expr(call)
			case *ast.AssignStmt:
				if len(st.Rhs) == 1 && unparen(st.Rhs[0]) == ast.Expr(call) {
					discarded = exprStr(st.Lhs[len(st.Lhs)-1]) == "_"
				}
			}
			var targs []ast.Expr
			for _, a := range call.Args {
				if isT(a) {
					targs = append(targs, a)
				}
			}
			if !discarded || len(targs) == 0 {
				continue
			}
			n++
			cons := f.Key + ": " + keyOfObj(fn) + "(" + exprStr(targs[0]) + ")"
			// (a) the closure itself is installed only after a successful probe with the same argument
			var want []string
			for _, a := range targs {
				want = append(want, exprStr(a))
			}
			if pl.at != nil && probed(pl.at, fn, want) {
				c.OK(rule, cons, call.Pos(), m, "closure installed only after a successful probe of the same call")
				continue
			}
			// (b) every level-dependent store to the captured variables is validated
			var bad []string
			nst := 0
			for _, a := range targs {
				ast.Inspect(a, func(y ast.Node) bool {
					id, ok := y.(*ast.Ident)
					if !ok || !tainted[info.Uses[id]] {
						return true
					}
					for _, st := range stores[info.Uses[id]] {
						nst++
						if probed(st.as, fn, []string{exprStr(st.rhs)}) {
							continue
						}
						if keyOfObj(fn) == "gzip.NewWriterLevel" && e.gzipRange(f, g, st.as, st.rhs) {
							continue
						}
						bad = append(bad, fmt.Sprintf("`%s` at %s stores a level that was not validated by a successful %s probe of the same value", nodeStr(st.as), m.Position(st.as.Pos()), keyOfObj(fn)))
					}
					return true
				})
			}
			if nst == 0 {
				bad = append(bad, "level dependent argument without a recognised store")
			}
			c.Check(len(bad) == 0, rule, cons, call.Pos(), m, "level validated before it reaches the error-discarding constructor",
				strings.Join(bad, "; ")+": the pool constructor discards the error, so an invalid level yields a nil/half-configured encoder and Compress panics or falls back silently instead of using the default level")
		}
	}
	c.Floor(rule, n, 3)
}

func c19identOf(x ast.Expr) *ast.Ident {
	id, _ := unparen(x).(*ast.Ident)
	if id == nil {
		return &ast.Ident{}
	}
	return id
}

// gzipRange: facts bound rhs within [-2, 9].
func (e *c19env) gzipRange(f *Func, g *Graph, at ast.Node, rhs ast.Expr) bool {
	info := f.Info()
	l, ok := g.LocOf(at)
	if !ok {
		return false
	}
	want := exprStr(rhs)
	lo, hi := false, false
	for _, ft := range g.FactsAt(l) {
		be, ok := unparen(ft.Cond).(*ast.BinaryExpr)
		if !ok || ft.Tag != nil {
			continue
		}
		x, y, op := be.X, be.Y, be.Op
		if exprStr(y) == want {
			x, y = y, x
			switch op {
			case token.LSS:
				op = token.GTR
			case token.GTR:
				op = token.LSS
			case token.LEQ:
				op = token.GEQ
			case token.GEQ:
				op = token.LEQ
			}
		}
		if exprStr(x) != want {
			continue
		}
		k, okc := constInt(info, y)
		if !okc {
			continue
		}
		if !ft.Val {
			switch op {
			case token.LSS:
				op = token.GEQ
			case token.GTR:
				op = token.LEQ
			case token.LEQ:
				op = token.GTR
			case token.GEQ:
				op = token.LSS
			default:
				continue
			}
		}
		switch op {
		case token.GEQ:
			lo = lo || k >= -2
		case token.GTR:
			lo = lo || k >= -3
		case token.LEQ:
			hi = hi || k <= 9
		case token.LSS:
			hi = hi || k <= 10
		}
	}
	return lo && hi
}
