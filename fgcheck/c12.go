package main

import (
	"fmt"
	"go/ast"
	"go/constant"
	"go/token"
	"go/types"
	"sort"
	"strings"

	"golang.org/x/tools/go/cfg"
)

// C12: share-group acknowledgements are single, ordered and honoured.
//
// Files: c12.go (status CAS discipline, ack argument table, poll/close rules),
// c12_order.go (sortedness typestate of acknowledgement batches),
// c12_pending.go (pendingAcks / callback ring / FlushAcks, hand-off accounting).

func init() {
	register(&Prop{
		ID:        "C12",
		Level:     "other",
		Technique: "who-may-write and stored-value rules on the atomic per-record ack status, sortedness typestate of the acknowledgement range list (single sorted source / recognised two-pointer merge / sort of the result), lockset + guard-fact rules for the pending-ack counter, must-pass-through rules for the callback drainer and FlushAcks, exactly-once counting (core_oblig) and a reset-aware settle automaton for every drained ack batch, constant-argument table for the bulk ack entry points, dominance rules in poll/leave/closeShareSession",
		Explanation: "(1) status-cas: shareAckState.status is written only by CompareAndSwap; every CAS expects 0 or AckRenew as the old value (constant, or in tryAck a loaded value proved to be in {0, AckRenew} by the dominating guard), so a stored final outcome (accept/release/reject) is never replaced; whole-struct writes of a shareAckState happen only at slab construction in processSharePartition; every successful tryAck is followed by exactly one enqueue (appendAck / cursorsAcks.add) and nothing is enqueued without a successful CAS; the bulk entry points are called with the confirmed constant arguments (next-poll auto-accept = AckAccept, strictZero=false so a renewed record is accepted too; leave / closeShareSession = AckRelease, strictZero=true; user supplied statuses are range-checked); " +
			"(2) ack-order: the slice returned by buildAckRanges is ascending by firstOffset: each source is sorted ascending by the key that is emitted, duplicate offsets and undecided (status 0) entries are skipped, and the appends come from one sorted source, or from a recognised merge of two sorted sources (interleaving loop guarded by a key comparison, remainder drained afterwards), or the result is sorted before it is returned; appending two independently sorted sources one after the other is reported; coalesceAppendRange only appends its argument or extends the last range when contiguous and of equal type/source/epoch; every writer of a kmsg AcknowledgementBatches field copies, in order, the ranges returned by one buildAckRanges call; " +
			"(3) pending-count: sc.pendingAcks is incremented only under the cursor's ackMu, after the closed test, in the same critical section as (and by the same amount as) the append to cursor.pendingAcks; the only decrement is subtractPendingAcks, called only from drainCallbacks after the user callback for the same ring entry returned; drainCallbacks is started only by the push that made the ring non-empty and is the only dropPeek caller; FlushAcks returns nil only after its waiter observed pendingAcks <= 0, and the zero crossing broadcasts under ackMu; " +
			"(4) ack-handoff: every drained batch in shareAck, closeShareSession and shareFetch is settled exactly once (enqueueCallback / enqueueAckErrors / requeue / hand-over to shareAck) with the live count; every per-partition requeue adds exactly len(entries) to the requeued total that is subtracted from the settled count; filterStaleEntries counts every entry exactly once as live or stale; " +
			"(5) poll-finalize: finalizePreviousPoll dominates every fill() in shareConsumer.poll under c.mu, every polled share record is tracked in lastPolled, lastPolled is reset only after it was bulk-acked, leave releases lastPolled before the per-source closeShareSession, which releases buffered records before the closing drain and turns renew into release before ranges are built.",
		NotDecided: "broker behaviour (that a confirmed accept/reject is not redelivered; acquisition-lock expiry), that user-ack offsets and gap ranges of one cursor are disjoint (data invariant of processSharePartition), the documented microsecond window in which a terminal ack racing a drain can be sent twice, and liveness of the ack path (that a queued ack is eventually sent).",
		Assumptions: []string{
			"a broker request promise (br.do) delivers a response or an error, never neither",
			"each shareCursor appears at most once in source.share.cursors (one drain per partition per request)",
		},
		Run: runC12,
	})
}

type c12env struct {
	c     *Ctx
	m     *Module
	funcs []*Func
	renew int64
	seen  map[string]int
}

// cons makes a construct key unique within the run without using positions.
func (e *c12env) cons(s string) string {
	e.seen[s]++
	if n := e.seen[s]; n > 1 {
		return fmt.Sprintf("%s#%d", s, n)
	}
	return s
}

func runC12(c *Ctx) {
	m := c.Load("")
	if m == nil {
		return
	}
	e := &c12env{c: c, m: m, funcs: m.FuncsIn("kgo"), seen: map[string]int{}}
	rc, ok := m.Object("kgo", "AckRenew").(*types.Const)
	if !ok {
		c.Undecided("anchor", "kgo.AckRenew", token.NoPos, m, "constant not found")
		return
	}
	e.renew, _ = constant.Int64Val(constant.ToInt(rc.Val()))
	for _, k := range []string{"AckAccept", "AckRelease", "AckReject"} {
		if _, ok := m.Object("kgo", k).(*types.Const); !ok {
			c.Undecided("anchor", "kgo."+k, token.NoPos, m, "constant not found")
			return
		}
	}
	e.ruleStatusCAS()
	e.ruleAckEnqueue()
	e.ruleAckArgs()
	e.ruleOrder()
	e.ruleBuilders()
	e.rulePending()
	e.ruleHandoff()
	e.rulePollClose()
}

// ---------------------------------------------------------------- helpers

func c12id(x ast.Expr) *ast.Ident {
	id, _ := unparen(x).(*ast.Ident)
	return id
}

func c12obj(info *types.Info, x ast.Expr) types.Object {
	id := c12id(x)
	if id == nil {
		return nil
	}
	if o := info.Uses[id]; o != nil {
		return o
	}
	return info.Defs[id]
}

// c12strip removes parentheses and type conversions.
func c12strip(info *types.Info, x ast.Expr) ast.Expr {
	for {
		x = unparen(x)
		call, ok := x.(*ast.CallExpr)
		if !ok || len(call.Args) != 1 {
			return x
		}
		tv, ok := info.Types[call.Fun]
		if !ok || !tv.IsType() {
			return x
		}
		x = call.Args[0]
	}
}

func (e *c12env) constOf(info *types.Info, x ast.Expr) (int64, bool) {
	return constInt(info, unparen(x))
}

func (e *c12env) constName(name string) int64 {
	k := e.m.Object("kgo", name).(*types.Const)
	v, _ := constant.Int64Val(constant.ToInt(k.Val()))
	return v
}

func c12flatten(x ast.Expr, op token.Token, out []ast.Expr) []ast.Expr {
	x = unparen(x)
	if b, ok := x.(*ast.BinaryExpr); ok && b.Op == op {
		out = c12flatten(b.X, op, out)
		return c12flatten(b.Y, op, out)
	}
	return append(out, x)
}

// c12domain extracts from the branch facts the finite set of constants the
// local variable obj is known to equal.
func c12domain(info *types.Info, facts []Fact, obj types.Object) (map[int64]bool, bool) {
	cmpConst := func(x ast.Expr, op token.Token) (int64, bool) {
		b, ok := unparen(x).(*ast.BinaryExpr)
		if !ok || b.Op != op {
			return 0, false
		}
		l, r := b.X, b.Y
		if c12obj(info, l) != obj {
			l, r = r, l
		}
		if c12obj(info, l) != obj || obj == nil {
			return 0, false
		}
		return constInt(info, unparen(r))
	}
	var dom map[int64]bool
	meet := func(d map[int64]bool) {
		if dom == nil {
			dom = d
			return
		}
		for k := range dom {
			if !d[k] {
				delete(dom, k)
			}
		}
	}
	for _, ft := range facts {
		if ft.Tag != nil {
			continue
		}
		var parts []ast.Expr
		var op token.Token
		if ft.Val {
			parts, op = c12flatten(ft.Cond, token.LOR, nil), token.EQL
		} else {
			parts, op = c12flatten(ft.Cond, token.LAND, nil), token.NEQ
		}
		d := map[int64]bool{}
		ok := true
		for _, p := range parts {
			v, isC := cmpConst(p, op)
			if !isC {
				ok = false
				break
			}
			d[v] = true
		}
		if ok && len(d) > 0 {
			meet(d)
		}
	}
	return dom, dom != nil
}

// c12factCall reports whether a fact "call to fn has value val" holds.
func c12factCall(info *types.Info, facts []Fact, fn types.Object, val bool) bool {
	for _, ft := range facts {
		if ft.Tag != nil || ft.Val != val {
			continue
		}
		if call, ok := unparen(ft.Cond).(*ast.CallExpr); ok && isCallTo(info, call, fn) {
			return true
		}
	}
	return false
}

// c12factField reports whether a fact "<base>.<field> has value val" holds
// (base compared by canonical path when base != "").
func c12factField(f *Func, facts []Fact, field *types.Var, base string, val bool) bool {
	for _, ft := range facts {
		if ft.Tag != nil || ft.Val != val {
			continue
		}
		sel, ok := unparen(ft.Cond).(*ast.SelectorExpr)
		if !ok || !sameField(fieldOfSel(f.Info(), sel), field) {
			continue
		}
		if base == "" || canonPath(f, sel.X) == base {
			return true
		}
	}
	return false
}

// c12enclosingIf returns the innermost if statement whose condition contains n.
func c12enclosingIf(body ast.Node, n ast.Node) *ast.IfStmt {
	var best *ast.IfStmt
	ast.Inspect(body, func(x ast.Node) bool {
		if s, ok := x.(*ast.IfStmt); ok && s.Cond.Pos() <= n.Pos() && n.End() <= s.Cond.End() {
			best = s
		}
		return true
	})
	return best
}

// c12enclosing returns the innermost node of type T that strictly contains n.
func c12enclosing[T ast.Node](body ast.Node, n ast.Node) (T, bool) {
	var best T
	found := false
	ast.Inspect(body, func(x ast.Node) bool {
		if x == nil {
			return false
		}
		if x.Pos() > n.Pos() || x.End() < n.End() {
			return false
		}
		if t, ok := x.(T); ok && x != n {
			best, found = t, true
		}
		return true
	})
	return best, found
}

func c12within(outer, n ast.Node) bool {
	return outer != nil && n != nil && outer.Pos() <= n.Pos() && n.End() <= outer.End()
}

func (e *c12env) need(key string) *Func { return e.c.NeedFunc(e.m, key) }

func (e *c12env) fnOf(obj types.Object) *Func {
	fn, ok := obj.(*types.Func)
	if !ok {
		return nil
	}
	return e.m.Func(keyOfObj(fn))
}

// ---------------------------------------------------------------- (1) status CAS

func (e *c12env) ruleStatusCAS() {
	c, m := e.c, e.m
	rule := "status-cas"
	fld := m.Field("kgo", "shareAckState", "status")
	stObj := m.Object("kgo", "shareAckState")
	if fld == nil || stObj == nil {
		c.Undecided("anchor", "kgo.shareAckState.status", token.NoPos, m, "field not found")
		return
	}
	nCAS := 0
	for _, s := range StoreSites(e.funcs, fld) {
		f := s.Fn
		c.Touch(f)
		info := f.Info()
		nCAS++
		if s.Kind != "atomic:CompareAndSwap" {
			c.Fail(rule, e.cons(f.Key+"#"+s.Kind), s.Node.Pos(), m,
				"shareAckState.status is written by "+s.Kind+" (`"+nodeStr(s.Node)+"`): an unconditional write can replace a final outcome that was already queued for the broker, so the record is acknowledged twice with different outcomes (or its accept is lost)")
			continue
		}
		call := s.Node.(*ast.CallExpr)
		if len(call.Args) != 2 {
			c.Undecided(rule, e.cons(f.Key+"#cas"), call.Pos(), m, "unexpected CompareAndSwap arity")
			continue
		}
		oldX, newX := call.Args[0], call.Args[1]
		cons := e.cons(f.Key + "#CAS(" + nosp(exprStr(oldX)) + "->" + nosp(exprStr(newX)) + ")")
		if ov, isC := e.constOf(info, oldX); isC {
			if ov != 0 && ov != e.renew {
				c.Fail(rule, cons, call.Pos(), m, fmt.Sprintf("CompareAndSwap expects old value %d, a final outcome: an accept/release/reject that may already be on its way to the broker is replaced, the record gets a second, different acknowledgement", ov))
				continue
			}
			if nv, isNC := e.constOf(info, newX); isNC {
				if nv < 0 || nv > e.renew || (ov == e.renew && nv == e.renew) {
					c.Fail(rule, cons, call.Pos(), m, fmt.Sprintf("CompareAndSwap stores %d, not an ack status", nv))
					continue
				}
				c.OK(rule, cons, call.Pos(), m, fmt.Sprintf("constant transition %d -> %d, old is not a final outcome", ov, nv))
				continue
			}
			// variable new value: must be the status parameter of tryAck (domain checked by ack-args)
			if f.Key == "kgo.shareAckState.tryAck" && e.isParam(f, c12strip(info, newX)) {
				c.OK(rule, cons, call.Pos(), m, fmt.Sprintf("old == %d; new is tryAck's status parameter (range-checked at the user entry points, rule ack-args)", ov))
				continue
			}
			c.Undecided(rule, cons, call.Pos(), m, "new value of the CAS is neither a constant nor tryAck's status parameter")
			continue
		}
		// non-constant old value
		if f.Key != "kgo.shareAckState.tryAck" {
			c.Fail(rule, cons, call.Pos(), m, "CompareAndSwap with a non-constant old value outside tryAck: only tryAck may transition from a loaded value, and only from 0 or AckRenew; here a final outcome can be overwritten")
			continue
		}
		g := f.GraphFor(call)
		loc, okL := g.LocOf(call)
		obj := c12obj(info, oldX)
		if !okL || obj == nil {
			c.Undecided(rule, cons, call.Pos(), m, "old value is not a local variable")
			continue
		}
		// the variable is loaded from the same status word
		loaded := false
		for _, rhs := range assignsTo(f, obj) {
			if lc, ok := unparen(rhs).(*ast.CallExpr); ok {
				if sel, ok := lc.Fun.(*ast.SelectorExpr); ok && sel.Sel.Name == "Load" && sameField(fieldOfSel(info, sel.X), fld) {
					loaded = true
					continue
				}
			}
			loaded = false
			break
		}
		dom, okD := c12domain(info, g.FactsAt(loc), obj)
		bad := ""
		for v := range dom {
			if v != 0 && v != e.renew {
				bad = fmt.Sprint(v)
			}
		}
		switch {
		case !loaded:
			c.Undecided(rule, cons, call.Pos(), m, "old value of the CAS is not (only) a Load of the same status word")
		case !okD || len(dom) == 0:
			c.Fail(rule, cons, call.Pos(), m, "the loaded status is swapped without a dominating guard restricting it to 0 or AckRenew: a record that already has a final outcome (accept/release/reject) can be acknowledged again with another outcome")
		case bad != "":
			c.Fail(rule, cons, call.Pos(), m, "the guard lets the CAS replace status "+bad+", a final outcome: the record is acknowledged twice")
		default:
			c.OK(rule, cons, call.Pos(), m, "loaded old value is in {0, AckRenew} by the dominating guard")
		}
	}
	c.Floor(rule, nCAS, 4)

	// whole-struct writes (they reset status to 0)
	stT := stObj.Type()
	nInit := 0
	for _, f := range e.funcs {
		info := f.Info()
		ast.Inspect(f.Decl.Body, func(x ast.Node) bool {
			switch s := x.(type) {
			case *ast.AssignStmt:
				for i, l := range s.Lhs {
					t := info.TypeOf(l)
					if t == nil || !types.Identical(t, stT) {
						continue
					}
					if id, ok := l.(*ast.Ident); ok && (id.Name == "_" || info.Defs[id] != nil) {
						continue // definition of a new local value, not an overwrite
					}
					cons := e.cons(f.Key + "#overwrite " + nosp(exprStr(l)))
					var rhs ast.Expr
					if len(s.Rhs) == len(s.Lhs) {
						rhs = s.Rhs[i]
					}
					lit, isLit := unparen(rhs).(*ast.CompositeLit)
					hasStatus := false
					if isLit {
						for _, el := range lit.Elts {
							kv, ok := el.(*ast.KeyValueExpr)
							if !ok || exprStr(kv.Key) == "status" {
								hasStatus = true
							}
						}
					}
					nInit++
					c.Touch(f)
					if f.Key == "kgo.source.processSharePartition" && isLit && !hasStatus {
						c.OK("status-init", cons, s.Pos(), m, "slab construction before the records are handed out; status starts at 0")
					} else {
						c.Fail("status-init", cons, s.Pos(), m, "a whole shareAckState is overwritten outside slab construction: the record's ack status is reset without CompareAndSwap, a final outcome is lost or can be given twice")
					}
				}
			case *ast.CallExpr:
				if id, ok := s.Fun.(*ast.Ident); ok && (id.Name == "clear" || id.Name == "copy") && len(s.Args) > 0 {
					if _, isB := info.Uses[id].(*types.Builtin); isB {
						if sl, ok := info.TypeOf(s.Args[0]).Underlying().(*types.Slice); ok && types.Identical(sl.Elem(), stT) {
							c.Fail("status-init", e.cons(f.Key+"#"+id.Name), s.Pos(), m, id.Name+" over []shareAckState rewrites ack statuses without CompareAndSwap")
						}
					}
				}
			}
			return true
		})
	}
	c.Floor("status-init", nInit, 1)
}

func (e *c12env) isParam(f *Func, x ast.Expr) bool {
	obj := c12obj(f.Info(), x)
	if obj == nil || f.Decl.Type.Params == nil {
		return false
	}
	for _, fl := range f.Decl.Type.Params.List {
		for _, n := range fl.Names {
			if f.Info().Defs[n] == obj {
				return true
			}
		}
	}
	return false
}

func (e *c12env) paramIndex(f *Func, x ast.Expr) int {
	obj := c12obj(f.Info(), x)
	if obj == nil || f.Decl.Type.Params == nil {
		return -1
	}
	i := 0
	for _, fl := range f.Decl.Type.Params.List {
		for _, n := range fl.Names {
			if f.Info().Defs[n] == obj {
				return i
			}
			i++
		}
	}
	return -1
}

// ruleAckEnqueue: one enqueue per successful CAS, none without.
func (e *c12env) ruleAckEnqueue() {
	c, m := e.c, e.m
	rule := "ack-enqueue"
	tryAck := m.Method("kgo", "shareAckState", "tryAck")
	appendAck := m.Method("kgo", "shareAckState", "appendAck")
	add := m.Method("kgo", "cursorsAcks", "add")
	if tryAck == nil || appendAck == nil || add == nil {
		c.Undecided("anchor", "kgo.shareAckState.tryAck/appendAck, kgo.cursorsAcks.add", token.NoPos, m, "method not found")
		return
	}
	isEnq := func(info *types.Info) func(n ast.Node) bool {
		return func(n ast.Node) bool {
			return containsNode(n, false, func(y ast.Node) bool {
				call, ok := y.(*ast.CallExpr)
				return ok && (isCallTo(info, call, appendAck) || isCallTo(info, call, add))
			})
		}
	}
	n := 0
	for _, site := range CallSites(e.funcs, tryAck) {
		f := site.Fn
		c.Touch(f)
		info := f.Info()
		call := site.Node.(*ast.CallExpr)
		cons := e.cons(f.Key + ": tryAck -> enqueue")
		g := f.GraphFor(call)
		ifs := c12enclosingIf(f.Decl.Body, call)
		n++
		if ifs == nil {
			c.Fail(rule, cons, call.Pos(), m, "the result of tryAck is not tested: whether the CAS won decides whether this call may queue the state (a lost CAS means the outcome is already queued)")
			continue
		}
		loc, ok := g.LocOf(ifs.Cond)
		if !ok {
			c.Undecided(rule, cons, call.Pos(), m, "condition not in CFG")
			continue
		}
		// which successor edge carries "tryAck returned true"?
		blk := g.C.Blocks[loc.B]
		trueEdge := -1
		for k := range blk.Succs {
			if c12factCall(info, decompose(ifs.Cond, k == 0, nil), tryAck, true) {
				trueEdge = k
			}
		}
		if trueEdge < 0 || len(blk.Succs) != 2 {
			c.Undecided(rule, cons, call.Pos(), m, "cannot tell on which branch tryAck succeeded")
			continue
		}
		path, lost := g.FindPath(Loc{loc.B, len(blk.Nodes) - 1}, SearchOpts{
			Stop:     isEnq(info),
			GoalExit: func(ExitKind, ast.Node) bool { return true },
			GoalNode: func(nd ast.Node) bool { return nd == ast.Node(ifs.Cond) },
			EdgeOK: func(from *cfg.Block, k int, to *cfg.Block) bool {
				if int(from.Index) == loc.B {
					return k == trueEdge
				}
				return true
			},
		})
		c.Check(!lost, rule, cons, call.Pos(), m, "every path after a successful CAS enqueues the state (appendAck / cursorsAcks.add)",
			"after a successful CAS the state is not queued for sending on the path "+pathStr(path)+": the record has a final status but is never acknowledged to the broker (redelivered after the lock timeout although the application accepted it)")
	}
	c.Floor(rule, n, 3)
	// converse: every enqueue is dominated by a successful tryAck
	k := 0
	for _, obj := range []*types.Func{appendAck, add} {
		for _, site := range CallSites(e.funcs, obj) {
			f := site.Fn
			c.Touch(f)
			call := site.Node.(*ast.CallExpr)
			g := f.GraphFor(call)
			loc, ok := g.LocOf(call)
			cons := e.cons(f.Key + ": " + obj.Name() + " only after successful tryAck")
			if !ok {
				c.Undecided(rule, cons, call.Pos(), m, "call not in CFG")
				continue
			}
			k++
			c.Check(c12factCall(f.Info(), g.FactsAt(loc), tryAck, true), rule, cons, call.Pos(), m, "dominated by tryAck(...) == true",
				"the state is queued for acknowledgement without a successful status CAS: a record whose outcome was already queued is queued again (acknowledged twice) or is sent with status 0")
		}
	}
	c.Floor(rule+"/converse", k, 3)
}

// ruleAckArgs: constant-argument table for the bulk entry points.
func (e *c12env) ruleAckArgs() {
	c, m := e.c, e.m
	rule := "ack-args"
	type want struct {
		status string // constant name, or "user" (range-checked parameter), or "param"
		strict string // "true", "false", "param"
		why    string
	}
	table := map[string]want{
		"kgo.shareConsumer.finalizePreviousPoll>batchAckStates": {"AckAccept", "false", "records left unacknowledged (or only renewed) are accepted at the next poll; with strictZero=true a renewed record is skipped, dropped from lastPolled and never gets a final acknowledgement"},
		"kgo.shareConsumer.leave>batchAckStates":                {"AckRelease", "true", "on close, records of the last poll that were not acknowledged are released, without overriding an explicit ack"},
		"kgo.source.closeShareSession>batchAckRecords":          {"AckRelease", "true", "on close, buffered records that were never polled are released"},
		"kgo.sourceShare.takeBuffered>batchAckRecords":          {"AckRelease", "any", "records of a paused partition are stripped from the poll and released (they were never handed out, their status is 0)"},
		"kgo.sourceShare.takeNBuffered>batchAckRecords":         {"AckRelease", "any", "records of a paused partition are stripped from the poll and released (they were never handed out, their status is 0)"},
		"kgo.Client.MarkAcks>batchAckRecords":                   {"user", "false", "explicit per-record ack: same CAS rules as Record.Ack"},
		"kgo.Client.MarkAcks>batchAckStates":                    {"user", "true", "fill-in ack of the last poll must not override explicit acks"},
		"kgo.Record.Ack>tryAck":                                 {"user", "false", "a final outcome may replace a renew, never another final outcome"},
		"kgo.batchAckRecords>tryAck":                            {"param", "param", "forwards its own arguments"},
		"kgo.batchAckStates>tryAck":                             {"param", "param", "forwards its own arguments"},
	}
	targets := []types.Object{m.Object("kgo", "batchAckStates"), m.Object("kgo", "batchAckRecords"), m.Method("kgo", "shareAckState", "tryAck")}
	for _, t := range targets {
		if t == nil {
			c.Undecided("anchor", "kgo.batchAckStates/batchAckRecords/tryAck", token.NoPos, m, "function not found")
			return
		}
	}
	n := 0
	for _, t := range targets {
		for _, site := range CallSites(e.funcs, t) {
			f := site.Fn
			c.Touch(f)
			info := f.Info()
			call := site.Node.(*ast.CallExpr)
			key := f.Key + ">" + t.Name()
			cons := e.cons(key)
			w, ok := table[key]
			if !ok {
				c.Undecided(rule, cons, call.Pos(), m, "new caller of a bulk ack entry point: its (status, strictZero) arguments are not in the confirmed table")
				continue
			}
			n++
			if len(call.Args) < 2 {
				c.Undecided(rule, cons, call.Pos(), m, "unexpected arity")
				continue
			}
			stX, szX := call.Args[len(call.Args)-2], call.Args[len(call.Args)-1]
			var probs []string
			switch w.status {
			case "param":
				if !e.isParam(f, stX) {
					probs = append(probs, "status is not the forwarded parameter")
				}
			case "user":
				if !e.isParam(f, stX) {
					probs = append(probs, "status is not the caller's parameter")
				} else if !e.rangeChecked(f, call, c12obj(info, stX)) {
					probs = append(probs, "the user supplied status is not range-checked to [AckAccept, AckRenew] before it is stored: an arbitrary value can be stored as the record's outcome and sent to the broker")
				}
			default:
				v, isC := e.constOf(info, stX)
				if !isC || v != e.constName(w.status) {
					probs = append(probs, "status argument is `"+exprStr(stX)+"`, must be the constant "+w.status)
				}
			}
			switch w.strict {
			case "any":
				if _, isC := constBool(info, unparen(szX)); !isC {
					probs = append(probs, "strictZero argument is not a constant")
				}
			case "param":
				if !e.isParam(f, szX) {
					probs = append(probs, "strictZero is not the forwarded parameter")
				}
			default:
				v, isC := constBool(info, unparen(szX))
				if !isC || fmt.Sprint(v) != w.strict {
					probs = append(probs, "strictZero argument is `"+exprStr(szX)+"`, must be the constant "+w.strict)
				}
			}
			c.Check(len(probs) == 0, rule, cons, call.Pos(), m, w.why, strings.Join(probs, "; ")+" ("+w.why+")")
		}
	}
	c.Floor(rule, n, 12)
}

// rangeChecked: at the call, facts exclude status < AckAccept and status > AckRenew.
func (e *c12env) rangeChecked(f *Func, call *ast.CallExpr, obj types.Object) bool {
	g := f.GraphFor(call)
	loc, ok := g.LocOf(call)
	if !ok {
		return false
	}
	info := f.Info()
	lo, hi := false, false
	for _, ft := range g.FactsAt(loc) {
		b, ok := unparen(ft.Cond).(*ast.BinaryExpr)
		if !ok || ft.Tag != nil {
			continue
		}
		l, r, op := b.X, b.Y, b.Op
		if c12obj(info, l) != obj {
			// mirrored comparison
			l, r = r, l
			switch op {
			case token.LSS:
				op = token.GTR
			case token.GTR:
				op = token.LSS
			case token.LEQ:
				op = token.GEQ
			case token.GEQ:
				op = token.LEQ
			}
		}
		if c12obj(info, l) != obj {
			continue
		}
		v, isC := constInt(info, unparen(r))
		if !isC {
			continue
		}
		// normalise to facts of the form status >= a / status <= b
		switch {
		case op == token.LSS && !ft.Val && v >= 1: // !(s < v) => s >= v
			lo = true
		case op == token.LEQ && !ft.Val && v >= 0: // !(s <= v) => s >= v+1
			lo = true
		case op == token.GEQ && ft.Val && v >= 1:
			lo = true
		case op == token.GTR && ft.Val && v >= 0:
			lo = true
		}
		switch {
		case op == token.GTR && !ft.Val && v <= e.renew: // !(s > v) => s <= v
			hi = true
		case op == token.GEQ && !ft.Val && v <= e.renew+1:
			hi = true
		case op == token.LEQ && ft.Val && v <= e.renew:
			hi = true
		case op == token.LSS && ft.Val && v <= e.renew+1:
			hi = true
		}
	}
	return lo && hi
}

// ---------------------------------------------------------------- (5) poll / close

func (e *c12env) rulePollClose() {
	c, m := e.c, e.m
	rule := "poll-finalize"
	poll := e.need("kgo.shareConsumer.poll")
	fin := e.need("kgo.shareConsumer.finalizePreviousPoll")
	track := e.need("kgo.shareConsumer.trackLastPolled")
	leave := e.need("kgo.shareConsumer.leave")
	closeS := e.need("kgo.source.closeShareSession")
	bStates := m.Object("kgo", "batchAckStates")
	bRecs := m.Object("kgo", "batchAckRecords")
	lastPolled := m.Field("kgo", "shareConsumer", "lastPolled")
	if poll == nil || fin == nil || track == nil || leave == nil || closeS == nil || bStates == nil || bRecs == nil || lastPolled == nil {
		if lastPolled == nil || bStates == nil || bRecs == nil {
			c.Undecided("anchor", "kgo.shareConsumer.lastPolled / batchAckStates / batchAckRecords", token.NoPos, m, "not found")
		}
		return
	}
	// (a) finalizePreviousPoll dominates every fill() under c.mu
	{
		info := poll.Info()
		g := poll.Graph()
		finCalls := callsTo(poll.Decl.Body, info, fin.Obj, false)
		var fillLit *ast.FuncLit
		var fillObj types.Object
		ast.Inspect(poll.Decl.Body, func(x ast.Node) bool {
			as, ok := x.(*ast.AssignStmt)
			if !ok || len(as.Rhs) != 1 || len(as.Lhs) != 1 {
				return true
			}
			lit, ok := as.Rhs[0].(*ast.FuncLit)
			if !ok {
				return true
			}
			if len(callsTo(lit.Body, info, track.Obj, true)) > 0 {
				fillLit, fillObj = lit, c12obj(info, as.Lhs[0])
			}
			return true
		})
		if len(finCalls) != 1 || fillLit == nil || fillObj == nil {
			c.Undecided(rule, poll.Key+"#finalize-before-fill", poll.Pos(), m, fmt.Sprintf("expected one finalizePreviousPoll call (%d) and a fill closure that calls trackLastPolled", len(finCalls)))
		} else {
			finLoc, _ := g.LocOf(finCalls[0])
			env := newLockEnv(poll, nil, nil)
			nFill := 0
			ast.Inspect(poll.Decl.Body, func(x ast.Node) bool {
				call, ok := x.(*ast.CallExpr)
				if !ok || c12obj(info, call.Fun) != fillObj {
					return true
				}
				nFill++
				cons := e.cons(poll.Key + "#fill after finalizePreviousPoll")
				if innermostLit(poll, call) != nil {
					c.Undecided(rule, cons, call.Pos(), m, "fill is called from a nested closure")
					return true
				}
				l, ok := g.LocOf(call)
				held, okH := env.HeldAtNode(call)
				switch {
				case !ok || !g.Dominates(finLoc, l):
					c.Fail(rule, cons, call.Pos(), m, "records are taken (fill) on a path that did not run finalizePreviousPoll first: trackLastPolled overwrites lastPolled, so the previous poll's unacknowledged records are never accepted (they are redelivered after the acquisition lock expires although the application polled past them)")
				case !okH || !held.Holds("sc.c.mu", true):
					c.Fail(rule, cons, call.Pos(), m, "fill runs without sc.c.mu: lastPolled is shared with MarkAcks and leave (must-lockset "+held.String()+")")
				default:
					c.OK(rule, cons, call.Pos(), m, "dominated by finalizePreviousPoll, under sc.c.mu")
				}
				return true
			})
			c.Floor(rule+"/fill", nFill, 2)
			// fill tracks what it returns
			tc := callsTo(fillLit.Body, info, track.Obj, false)
			cons := poll.Key + "#fill tracks polled records"
			if len(tc) != 1 {
				c.Fail(rule, cons, fillLit.Pos(), m, "fill does not call trackLastPolled exactly once")
			} else {
				lg := poll.LitGraph(fillLit)
				tl, _ := lg.LocOf(tc[0])
				okGuard := true
				detail := ""
				for _, ft := range lg.FactsAt(tl) {
					s := nosp(exprStr(ft.Cond))
					if ft.Val && (s == "len(fetches)>0" || s == "len(fetches)!=0") {
						continue
					}
					okGuard = false
					detail = s
				}
				// and after the last append to fetches
				appendsAfter := false
				if _, found := lg.FindPath(tl, SearchOpts{GoalNode: func(nd ast.Node) bool {
					as, ok := nd.(*ast.AssignStmt)
					return ok && len(as.Lhs) == 1 && exprStr(as.Lhs[0]) == "fetches"
				}}); found {
					appendsAfter = true
				}
				c.Check(okGuard && !appendsAfter, rule, cons, tc[0].Pos(), m, "trackLastPolled(fetches) after the last append, skipped only when nothing was taken",
					"records handed to the application are not all tracked for the next poll's auto-accept (guard `"+detail+"`, appends after tracking: "+fmt.Sprint(appendsAfter)+"): untracked records are never acknowledged unless the application acks each one")
			}
		}
	}
	// (b) trackLastPolled keeps every share record
	{
		info := track.Info()
		ok := false
		ast.Inspect(track.Decl.Body, func(x ast.Node) bool {
			lit, isLit := x.(*ast.FuncLit)
			if !isLit {
				return true
			}
			for _, st := range storesTo(lit.Body, info, lastPolled, true) {
				call, isCall := unparen(st.RHS).(*ast.CallExpr)
				if !isCall || exprStr(call.Fun) != "append" || len(call.Args) != 2 {
					continue
				}
				lg := track.LitGraph(lit)
				l, okL := lg.LocOf(st.Node)
				if !okL {
					continue
				}
				only := true
				for _, ft := range lg.FactsAt(l) {
					s := nosp(exprStr(ft.Cond))
					if !(s == exprStr(call.Args[1])+"!=nil" && ft.Val) && !(s == exprStr(call.Args[1])+"==nil" && !ft.Val) {
						only = false
					}
				}
				if only {
					ok = true
				}
			}
			return true
		})
		c.Check(ok, rule, track.Key+"#tracks every acquired record", track.Pos(), m, "append guarded only by st != nil", "trackLastPolled no longer appends every record that has share ack state: skipped records are not auto-accepted at the next poll")
	}
	// (c) lastPolled writers: reset only after a bulk ack of lastPolled
	nW := 0
	for _, s := range StoreSites(e.funcs, lastPolled) {
		f := s.Fn
		c.Touch(f)
		cons := e.cons(f.Key + "#lastPolled " + s.Kind)
		nW++
		if f.Key == track.Key {
			c.OK(rule, cons, s.Node.Pos(), m, "trackLastPolled (called only from fill, after finalizePreviousPoll)")
			continue
		}
		if f.Key != fin.Key && f.Key != leave.Key {
			c.Undecided(rule, cons, s.Node.Pos(), m, "new writer of shareConsumer.lastPolled: who-may-write table must be re-confirmed")
			continue
		}
		g := f.GraphFor(s.Node)
		l, _ := g.LocOf(s.Node)
		dominated := false
		for _, bc := range callsTo(f.Decl.Body, f.Info(), bStates, false) {
			if len(bc.Args) >= 2 && sameField(fieldOfSel(f.Info(), bc.Args[1]), lastPolled) {
				if bl, ok := g.LocOf(bc); ok && g.Dominates(bl, l) {
					dominated = true
				}
			}
		}
		c.Check(dominated, rule, cons, s.Node.Pos(), m, "reset after batchAckStates(sc, sc.lastPolled, ...)",
			"lastPolled is reset on a path that did not bulk-ack it first: the records of the previous poll are forgotten without accept/release")
	}
	c.Floor(rule+"/lastPolled-writers", nW, 4)
	// trackLastPolled has one caller: the fill closure
	for _, site := range CallSites(e.funcs, track.Obj) {
		c.Check(site.Fn.Key == poll.Key && site.Lit != nil, rule, e.cons(site.Fn.Key+"#calls trackLastPolled"), site.Node.Pos(), m, "", "trackLastPolled (which discards the previous lastPolled) is called outside poll's fill closure, i.e. not after finalizePreviousPoll")
	}
	// finalize: the only early return is for an empty lastPolled
	{
		g := fin.Graph()
		okRet := true
		for _, nd := range findNodes(fin.Decl.Body, false, func(x ast.Node) bool { _, ok := x.(*ast.ReturnStmt); return ok }) {
			l, _ := g.LocOf(nd)
			only := false
			for _, ft := range g.FactsAt(l) {
				s := nosp(exprStr(ft.Cond))
				if ft.Val && s == "len(sc.lastPolled)==0" {
					only = true
				}
			}
			if !only {
				okRet = false
			}
		}
		c.Check(okRet, rule, fin.Key+"#early return only when empty", fin.Pos(), m, "", "finalizePreviousPoll can return without accepting a non-empty lastPolled")
	}
	// (d) leave: release lastPolled before closing the per-source sessions
	{
		info := leave.Info()
		g := leave.Graph()
		var rel *ast.CallExpr
		for _, bc := range callsTo(leave.Decl.Body, info, bStates, false) {
			if len(bc.Args) >= 2 && sameField(fieldOfSel(info, bc.Args[1]), lastPolled) {
				rel = bc
			}
		}
		var closeCall *ast.CallExpr
		for _, cc := range callsTo(leave.Decl.Body, info, closeS.Obj, true) {
			closeCall = cc
		}
		cons := leave.Key + "#release lastPolled before closeShareSession"
		if rel == nil || closeCall == nil {
			c.Fail(rule, cons, leave.Pos(), m, "leave no longer releases lastPolled and closes every source's share session: records left unacknowledged are not released on close")
		} else {
			// the statement that spawns the close goroutines (outermost call containing closeCall in the main body)
			var outer ast.Node
			ast.Inspect(leave.Decl.Body, func(x ast.Node) bool {
				if es, ok := x.(*ast.ExprStmt); ok && outer == nil && c12within(es, closeCall) && innermostLit(leave, es) == nil {
					outer = es
				}
				return true
			})
			relIf := c12enclosingStmtIf(leave.Decl.Body, rel)
			okOrder := false
			guardOK := true
			if outer != nil {
				ol, ok1 := g.LocOf(outer)
				var rl Loc
				var ok2 bool
				if relIf != nil {
					rl, ok2 = g.LocOf(relIf.Cond)
					s := nosp(exprStr(relIf.Cond))
					guardOK = s == "len(sc.lastPolled)>0" || s == "len(sc.lastPolled)!=0"
				} else {
					rl, ok2 = g.LocOf(rel)
				}
				okOrder = ok1 && ok2 && g.Dominates(rl, ol)
			}
			held, okH := newLockEnv(leave, nil, nil).HeldAtNode(rel)
			c.Check(okOrder && guardOK && okH && held.Holds("sc.c.mu", true), rule, cons, rel.Pos(), m, "batchAckStates(lastPolled, AckRelease, true) under c.mu, skipped only when empty, before the sessions are closed",
				"the release of the last poll's unacknowledged records does not precede every closeShareSession (or is skipped for a non-empty lastPolled, or runs without c.mu): the closing drain misses them and they are not released on close")
			// the close is waited for
			waited := containsNode(leave.Decl.Body, false, func(x ast.Node) bool {
				call, ok := x.(*ast.CallExpr)
				return ok && strings.HasSuffix(nosp(exprStr(call.Fun)), ".Wait") && outer != nil && call.Pos() > outer.End()
			})
			c.Check(waited, rule, leave.Key+"#waits for closeShareSession", leave.Pos(), m, "", "leave does not wait for the per-source closeShareSession goroutines")
		}
	}
	// (e) closeShareSession: release buffered before the closing drain; renew -> release before ranges
	{
		info := closeS.Info()
		g := closeS.Graph()
		drainAll := m.Method("kgo", "source", "drainAllShareAcks")
		build := m.Object("kgo", "buildAckRanges")
		var drain *ast.CallExpr
		if drainAll != nil {
			for _, dc := range callsTo(closeS.Decl.Body, info, drainAll, false) {
				drain = dc
			}
		}
		cons := closeS.Key + "#closing drain"
		if drain == nil || len(drain.Args) != 1 {
			c.Fail(rule, cons, closeS.Pos(), m, "closeShareSession does not drain the cursors")
		} else {
			v, isC := constBool(info, drain.Args[0])
			dl, _ := g.LocOf(drain)
			_, later := g.FindPath(dl, SearchOpts{GoalNode: func(nd ast.Node) bool {
				return containsNode(nd, false, func(y ast.Node) bool {
					call, ok := y.(*ast.CallExpr)
					return ok && isCallTo(info, call, bRecs)
				})
			}})
			nRel := len(callsTo(closeS.Decl.Body, info, bRecs, false))
			c.Check(isC && v && !later && nRel >= 1, rule, cons, drain.Pos(), m, "drainAllShareAcks(true) after the buffered records were released",
				"the closing drain is not drainAllShareAcks(true) placed after the release of buffered records: late acks are silently lost (cursor not closed) or buffered records are not released on close")
			// renew -> release CAS before buildAckRanges
			if build != nil {
				status := m.Field("kgo", "shareAckState", "status")
				var casLoc Loc
				haveCAS := false
				var loopStmt ast.Node
				for _, s := range storesTo(closeS.Decl.Body, info, status, false) {
					call, ok := s.Node.(*ast.CallExpr)
					if !ok || len(call.Args) != 2 {
						continue
					}
					ov, c1 := e.constOf(info, call.Args[0])
					nv, c2 := e.constOf(info, call.Args[1])
					if c1 && c2 && ov == e.renew && nv == e.constName("AckRelease") {
						// use the outermost enclosing range statement as the ordering anchor
						loopStmt = call
						ast.Inspect(closeS.Decl.Body, func(x ast.Node) bool {
							if r, ok := x.(*ast.RangeStmt); ok && c12within(r, call) && (loopStmt == ast.Node(call) || c12within(loopStmt, r) == false && c12within(r, loopStmt)) {
								loopStmt = r
							}
							return true
						})
						haveCAS = true
					}
				}
				okB := haveCAS
				if haveCAS {
					if rs, ok := loopStmt.(*ast.RangeStmt); ok {
						casLoc, _ = g.LocOf(rs.X)
					} else {
						casLoc, _ = g.LocOf(loopStmt)
					}
					for _, bc := range callsTo(closeS.Decl.Body, info, build, false) {
						bl, ok := g.LocOf(bc)
						if !ok || !g.Dominates(casLoc, bl) {
							okB = false
						}
					}
				}
				c.Check(okB, rule, closeS.Key+"#renew becomes release on close", closeS.Pos(), m, "CAS(AckRenew -> AckRelease) over the drained entries precedes buildAckRanges",
					"on close, records that are only renewed (no final outcome) are not turned into a release before the final acknowledgement is built: they are left unacknowledged instead of released")
			}
		}
	}
}

// c12enclosingStmtIf returns the innermost if statement whose body contains n.
func c12enclosingStmtIf(body ast.Node, n ast.Node) *ast.IfStmt {
	var best *ast.IfStmt
	ast.Inspect(body, func(x ast.Node) bool {
		if s, ok := x.(*ast.IfStmt); ok && c12within(s.Body, n) {
			best = s
		}
		return true
	})
	return best
}

func c12sortedStrings(m map[string]bool) []string {
	var out []string
	for k := range m {
		out = append(out, k)
	}
	sort.Strings(out)
	return out
}
