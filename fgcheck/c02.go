package main

import (
	"fmt"
	"go/ast"
	"go/token"
	"go/types"
	"strings"
)

func init() {
	register(&Prop{
		ID:        "C02",
		Level:     "other",
		Technique: "who-may-call table of failAllRecords with three-valued evaluation of each caller's guard (may not fail a batch whose outcome is unknown), who-may-write tables with stored-value classes for the idempotency flags and sequence fields, dominance rules for the epoch re-check, the in-flight gate, the ordered response worker and batch freezing, paired-store rule (same block / dominance + must-pass) tying every write of the drain index to the matching sequence write",
		Explanation: "(1) recBuf.seq / batch0Seq are written only through incrementSequence, the constant 0 (sequence reset) or a copy of the sibling field; " +
			"(2) fail-only-when-safe: every caller of recBuf.failAllRecords is in the confirmed table (definitive broker error, terminal purge/close/fatal paths, or guarded); for guarded callers the conjunction of conditions controlling the call (through local flags) evaluates to false when the batch is unsureIfProduced, and to false when it is in flight (canFailFromLoadErrs == false), unless idempotency is disabled or AllowIdempotentProduceCancellation is set; handleRetryBatches receives canFail=true only from the per-batch response path; " +
			"(3) flag monotonicity: canFailFromLoadErrs is stored false only in produceRequest.AppendTo (before the batch is written) and true only at batch creation and in handleReqRespBatch; unsureIfProduced is only ever stored the constant true (sticky); " +
			"(4) ordered response handling: handleSeqResps is started only with go under first==true of the seqResps push, handleReqResp is reached only through the promise given to doSequenced, handleReqRespBatch ignores any batch that is not its owner's first batch before touching state, finishBatch pops exactly the head batch and advances batch0Seq by its record count; " +
			"(5) one-in-flight gate: createReq's skip condition reads failing, batchDrainIdx, inflightOnSink, inflight and okOnSink; okOnSink = true is stored only in handleReqRespBatch under batch.owner.sink == s on the success arm; " +
			"(6) epoch re-check: in sink.produce the request is issued only after the loaded producer id/epoch/err were compared with the request's, and the mismatch arm undoes the staged batches and returns; " +
			"(7) a batch that has been added to a request is frozen (frozen = true before addBatch) and tryBuffer never appends to a frozen batch; " +
			"(8) the drain index moves only together with its sequence field (c02_round4.go), keeping seq == batch0Seq + records of the drained batches: every type-resolved write to recBuf.batchDrainIdx is ++ executed together with seq = incrementSequence(seq, n) on the same buffer (drain), -- together with batch0Seq = incrementSequence(batch0Seq, n) (head batch finished), or the constant 0 together with seq = batch0Seq (retry rewind; or with seq = 0 and batch0Seq = 0) - 'together' = same basic block, or one dominates the other and no exit is reachable in between; conversely every seq = batch0Seq store is together with batchDrainIdx = 0. A rewind of the index alone (e.g. the moved-sink retry arm) would re-send the head batch under the next sequence number and a leader that already appended it appends it again.",
		NotDecided: "absence of duplicates/reordering under arbitrary fault sequences (needs a broker model); the broker side; that resetBatchDrainIdx (or failAllRecords) is actually called on every retry path (C01 retry rule); the paired-store rule compares receivers textually (recBuf / batch.owner) and does not prove that nothing else runs between the two stores of a pair beyond their being executed together under recBuf.mu.",
		Run:        runC02,
	})
}

func runC02(c *Ctx) {
	m := c.Load("")
	if m == nil {
		return
	}
	c02seq(c, m)
	c02failers(c, m)
	c02flags(c, m)
	c02ordered(c, m)
	c02gate(c, m)
	c02epoch(c, m)
	c02frozen(c, m)
	c02inflight(c, m)
	c02drainIdx(c, m) // c02_round4.go
}

// c02inflight: an idempotent producer never has more unanswered produce
// requests per partition than the broker's duplicate window holds (5 batches
// per producer and partition in Kafka; pidwindow.entries in kfake).  The
// in-flight semaphore is created with capacity 1 (or, without idempotence,
// the configured value) and raised once, by firstRespCheck, to a constant N:
// a drain loop already parked on the old semaphore adds one, so 1 + N <= 5.
func c02inflight(c *Ctx, m *Module) {
	rule := "inflight-within-dedupe-window"
	sem := m.Field("kgo", "sink", "inflightSem")
	if sem == nil {
		c.Undecided("anchor", "kgo.sink.inflightSem", 0, m, "field not found")
		return
	}
	const window = 5
	n := 0
	for _, st := range StoreSites(m.FuncsIn("kgo"), sem) {
		if st.Kind != "atomic:Store" {
			c.Fail(rule, st.Fn.Key+": inflightSem "+st.Kind, st.Node.Pos(), m, "the in-flight semaphore is modified other than by Store")
			continue
		}
		n++
		mk, ok := unparen(st.RHS).(*ast.CallExpr)
		if !ok || exprStr(mk.Fun) != "make" || len(mk.Args) != 2 {
			c.Fail(rule, st.Fn.Key+": inflightSem.Store("+exprStr(st.RHS)+")", st.Node.Pos(), m, "the in-flight semaphore is not a freshly made channel of visible capacity")
			continue
		}
		info := st.Fn.Info()
		cons := st.Fn.Key + ": inflightSem.Store(" + exprStr(st.RHS) + ")"
		switch st.Fn.Key {
		case "kgo.sink.firstRespCheck":
			v, isC := constInt(info, mk.Args[1])
			g := st.Fn.GraphFor(st.Node)
			l, _ := g.LocOf(enclosingStmt(st.Fn.Decl.Body, st.Node))
			idem := factMatches(g.FactsAt(l), func(ft Fact) bool { return ft.Val && exprStr(ft.Cond) == "idempotent" })
			c.Check(isC && 1+v <= window && idem, rule, cons, st.Node.Pos(), m, fmt.Sprintf("1 (a loop parked on the old semaphore) + %d <= %d", v, window), fmt.Sprintf("the raised in-flight capacity is %s: with the request a parked drain loop adds, more than %d batches of one partition can be unanswered, the broker forgets the oldest one, its retry is rejected as out of order and the epoch bump re-sends (duplicates) the batches already written", exprStr(mk.Args[1]), window))
		case "kgo.Client.newSink":
			// 1 unless idempotence is disabled
			id, isID := unparen(mk.Args[1]).(*ast.Ident)
			ok := false
			if isID {
				rhss := assignsTo(st.Fn, info.Uses[id])
				ok = len(rhss) == 2
				for _, r := range rhss {
					if v, isC := constInt(info, r); isC {
						ok = ok && v == 1
						continue
					}
					asg := enclosingStmt(st.Fn.Decl.Body, r)
					g := st.Fn.Graph()
					l, okl := g.LocOf(asg)
					ok = ok && okl && factMatches(g.FactsAt(l), func(ft Fact) bool { return ft.Val && nosp(exprStr(ft.Cond)) == "cl.cfg.disableIdempotency" })
				}
			}
			c.Check(ok, rule, cons, st.Node.Pos(), m, "starts at 1; the configured value only without idempotence", "a new sink does not start with one in-flight request for an idempotent producer")
		default:
			c.Fail(rule, cons, st.Node.Pos(), m, "unexpected writer of the in-flight semaphore")
		}
	}
	c.Floor(rule+"/stores", n, 2)
	// kfake's window has the same size
	if km := c.Load("pkg/kfake"); km != nil {
		if fv := km.Field("kfake", "pidwindow", "entries"); fv != nil {
			arr, ok := fv.Type().Underlying().(*types.Array)
			c.Check(ok && arr.Len() == window, rule, "kfake.pidwindow.entries", fv.Pos(), km, "5-entry duplicate window", "kfake's duplicate window is not 5 entries")
		}
	}
}

func c02seq(c *Ctx, m *Module) {
	rule := "seq-writers"
	funcs := m.FuncsIn("kgo")
	cnt := 0
	for _, fld := range []string{"seq", "batch0Seq"} {
		v := fieldMust(c, m, "recBuf", fld)
		if v == nil {
			continue
		}
		for _, st := range StoreSites(funcs, v) {
			cnt++
			c.Touch(st.Fn)
			cons := st.Fn.Key + ": " + nodeStr(st.Node)
			ok, why := false, ""
			switch st.Kind {
			case "assign":
				rhs := unparen(st.RHS)
				if call, isCall := rhs.(*ast.CallExpr); isCall && exprStr(call.Fun) == "incrementSequence" && len(call.Args) == 2 && exprStr(call.Args[0]) == exprStr(st.LHS) {
					ok = true
				} else if v, isC := constInt(st.Fn.Info(), rhs); isC && v == 0 {
					ok = true
				} else if fv := fieldOfSel(st.Fn.Info(), rhs); fv != nil && (fv.Name() == "seq" || fv.Name() == "batch0Seq") {
					ok = true
				} else {
					why = "stored value `" + exprStr(rhs) + "` is not incrementSequence(<same field>, n), 0, or the sibling sequence field"
				}
			case "complit":
				v, isC := constInt(st.Fn.Info(), st.RHS)
				ok = isC && v == 0
				why = "literal initialises the sequence with " + exprStr(st.RHS)
			default:
				why = "raw arithmetic (" + st.Kind + ") on a sequence field"
			}
			c.Check(ok, rule, cons, st.Node.Pos(), m, "", why)
		}
	}
	c.Floor(rule, cnt, 5)
	// the sequence reset is confined to the first batch under needSeqReset
	if f := c.NeedFunc(m, "kgo.produceRequest.tryAddBatch"); f != nil {
		g := f.Graph()
		for _, n := range findNodes(f.Decl.Body, false, func(x ast.Node) bool { _, ok := x.(*ast.AssignStmt); return ok }) {
			as := n.(*ast.AssignStmt)
			if len(as.Lhs) == 1 && (exprStr(as.Lhs[0]) == "recBuf.seq" || exprStr(as.Lhs[0]) == "recBuf.batch0Seq") {
				l, _ := g.LocOf(as)
				facts := g.FactsAt(l)
				first := factMatches(facts, func(ft Fact) bool { return ft.Val && nosp(exprStr(ft.Cond)) == "recBuf.batches[0]==batch" })
				reset := factMatches(facts, func(ft Fact) bool { return ft.Val && nosp(exprStr(ft.Cond)) == "recBuf.needSeqReset" })
				c.Check(first && reset, "seq-reset-confined", f.Key+": "+nodeStr(as), as.Pos(), m, "only for the first batch under needSeqReset", "sequence reset outside `batches[0] == batch && needSeqReset`")
			}
		}
	}
	// createReq: the batch is staged with the current seq before it is advanced
	if f := c.NeedFunc(m, "kgo.sink.createReq"); f != nil {
		g := f.Graph()
		info := f.Info()
		tab := m.Method("kgo", "produceRequest", "tryAddBatch")
		var tl, sl Loc
		h1, h2 := false, false
		for _, call := range callsTo(f.Decl.Body, info, tab, false) {
			tl, h1 = g.LocOf(call)
		}
		for _, st := range storesTo(f.Decl.Body, info, m.Field("kgo", "recBuf", "seq"), false) {
			sl, h2 = g.LocOf(st.Node)
			rhs, _ := st.RHS.(*ast.CallExpr)
			okN := rhs != nil && len(rhs.Args) == 2 && nosp(exprStr(rhs.Args[1])) == "int32(len(batch.records))"
			c.Check(okN, "seq-advance-by-batch-size", f.Key+": "+nodeStr(st.Node), st.Node.Pos(), m, "advances by len(batch.records)", "sequence is not advanced by the staged batch's record count")
		}
		c.Check(h1 && h2 && g.Dominates(tl, sl), "seq-advance-after-staging", f.Key, f.Pos(), m, "tryAddBatch (captures seq) precedes the advance", "the sequence is advanced before the batch is staged with it")
	}
	// tryAddBatch stages with recBuf.seq
	if f := c.NeedFunc(m, "kgo.produceRequest.tryAddBatch"); f != nil {
		ab := m.Method("kgo", "seqRecBatches", "addBatch")
		okS := false
		for _, call := range callsTo(f.Decl.Body, f.Info(), ab, false) {
			okS = len(call.Args) == 5 && exprStr(call.Args[3]) == "recBuf.seq" && exprStr(call.Args[4]) == "batch" && exprStr(call.Args[2]) == "recBuf.partition"
		}
		c.Check(okS, "seq-advance-after-staging", f.Key+"#addBatch", f.Pos(), m, "", "the batch is not staged with (recBuf.partition, recBuf.seq, batch)")
	}
}

// c02atoms classifies guard atoms for the fail-only-when-safe evaluation.
func c02atoms(assign map[string]tri) func(e ast.Expr) (tri, bool) {
	return func(e ast.Expr) (tri, bool) {
		switch x := e.(type) {
		case *ast.Ident:
			if v, ok := assign["$"+x.Name]; ok {
				return v, true
			}
		case *ast.SelectorExpr:
			if v, ok := assign[x.Sel.Name]; ok {
				return v, true
			}
		case *ast.CallExpr:
			if sel, ok := x.Fun.(*ast.SelectorExpr); ok && sel.Sel.Name == "idempotent" && len(x.Args) == 0 {
				if v, ok := assign["idempotent()"]; ok {
					return v, true
				}
			}
		}
		return triU, false
	}
}

func c02failers(c *Ctx, m *Module) {
	rule := "fail-only-when-safe"
	far := m.Func("kgo.recBuf.failAllRecords")
	if far == nil {
		c.Undecided("anchor", "kgo.recBuf.failAllRecords", 0, m, "not found")
		return
	}
	table := map[string]string{
		"kgo.Client.finishBatch":         "definitive",
		"kgo.producer.purgeTopics":       "terminal",
		"kgo.Client.failBufferedRecords": "terminal",
		"kgo.sink.produce":               "guarded",
		"kgo.sink.handleRetryBatches":    "guarded-unsure-only",
		"kgo.recBuf.bumpRepeatedLoadErr": "guarded",
		"kgo.produceRequest.tryAddBatch": "guarded",
	}
	n := 0
	for _, site := range CallSites(m.FuncsIn("kgo"), far.Obj) {
		n++
		c.Touch(site.Fn)
		cat, ok := table[site.Fn.Key]
		cons := site.Fn.Key + ": failAllRecords"
		if !ok {
			c.Fail(rule, cons, site.Node.Pos(), m, "new caller of failAllRecords: not in the confirmed table (definitive / terminal / guarded); failing a partition's records is only safe when no batch outcome is unknown")
			continue
		}
		g := site.Fn.GraphFor(site.Node)
		l, _ := g.LocOf(site.Node)
		facts := g.FactsAt(l)
		switch cat {
		case "definitive":
			okd := factMatches(facts, func(ft Fact) bool { return ft.Val && nosp(exprStr(ft.Cond)) == "err!=nil" })
			c.Check(okd, rule, cons, site.Node.Pos(), m, "broker answered with an error", "finishBatch fails the partition without a broker error")
		case "terminal":
			c.OK(rule, cons, site.Node.Pos(), m, "terminal path (purge / close / fatal producer id)")
		default:
			// expand flags: a local bool set true at exactly one place stands for the facts there
			var expand func(fs []Fact, depth int) []Fact
			expand = func(fs []Fact, depth int) []Fact {
				var out []Fact
				for _, ft := range fs {
					id, isId := unparen(ft.Cond).(*ast.Ident)
					if isId && ft.Val && depth < 3 {
						obj := site.Fn.Info().Uses[id]
						var trueStores []ast.Node
						nOther := 0
						ast.Inspect(site.Fn.Decl.Body, func(x ast.Node) bool {
							if as, ok := x.(*ast.AssignStmt); ok && as.Tok == token.ASSIGN {
								for i, lh := range as.Lhs {
									if lid, ok := lh.(*ast.Ident); ok && site.Fn.Info().Uses[lid] == obj && i < len(as.Rhs) {
										if v, okc := constBool(site.Fn.Info(), as.Rhs[i]); okc && v {
											trueStores = append(trueStores, as)
										} else {
											nOther++
										}
									}
								}
							}
							return true
						})
						if len(trueStores) == 1 && nOther == 0 {
							sg := site.Fn.GraphFor(trueStores[0])
							if sl, ok := sg.LocOf(trueStores[0]); ok {
								out = append(out, expand(sg.FactsAt(sl), depth+1)...)
								continue
							}
						}
					}
					out = append(out, ft)
				}
				return out
			}
			fs := expand(facts, 0)
			envU := &triEnv{f: site.Fn, atom: c02atoms(map[string]tri{"unsureIfProduced": triT, "allowIdempotentProduceCancellation": triF, "disableIdempotency": triF, "idempotent()": triT})}
			rU := envU.evalFacts(fs)
			c.Check(rU == triF, rule, cons+"#unsure", site.Node.Pos(), m, "guard is false when the batch is unsureIfProduced (idempotent, no cancellation opt-in)",
				"the conditions controlling this failAllRecords call do not exclude a batch whose outcome is unknown (unsureIfProduced): its records could be failed although the broker appended them")
			if cat == "guarded-unsure-only" {
				// the retry handler may fail records only when its caller saw a per-batch
				// response (canFail): with canFail == false the outcome is unknown
				envF := &triEnv{f: site.Fn, atom: c02atoms(map[string]tri{"$canFail": triF, "allowIdempotentProduceCancellation": triF, "disableIdempotency": triF, "idempotent()": triT})}
				rF := envF.evalFacts(fs)
				c.Check(rF == triF, rule, cons+"#no-response", site.Node.Pos(), m, "guard is false when the request got no per-batch response (canFail == false)",
					"the conditions controlling this failAllRecords call do not exclude canFail == false (request died without a response, e.g. while aborting): a batch the broker may have appended is failed and its sequence numbers are reused by the next batch, which the broker then swallows as a duplicate")
			}
			if cat == "guarded" {
				envC := &triEnv{f: site.Fn, atom: c02atoms(map[string]tri{"canFailFromLoadErrs": triF, "allowIdempotentProduceCancellation": triF, "disableIdempotency": triF, "idempotent()": triT})}
				rC := envC.evalFacts(fs)
				c.Check(rC == triF, rule, cons+"#in-flight", site.Node.Pos(), m, "guard is false while the batch is in flight (canFailFromLoadErrs == false)",
					"the conditions controlling this failAllRecords call do not exclude a batch that is in flight (canFailFromLoadErrs == false)")
			}
		}
	}
	c.Floor(rule, n, 7)
	// handleRetryBatches canFail argument table
	hrb := m.Func("kgo.sink.handleRetryBatches")
	if hrb != nil {
		for _, site := range CallSites(m.FuncsIn("kgo"), hrb.Obj) {
			call := site.Node.(*ast.CallExpr)
			if len(call.Args) != 6 {
				c.Undecided(rule, site.Fn.Key+": handleRetryBatches", call.Pos(), m, "unexpected arity")
				continue
			}
			v, ok := constBool(site.Fn.Info(), call.Args[4])
			want := site.Fn.Key == "kgo.sink.handleReqResp" && exprStr(call.Args[0]) == "reqRetry"
			c.Check(ok && v == want, rule, site.Fn.Key+": handleRetryBatches("+exprStr(call.Args[0])+")#canFail", call.Pos(), m, fmt.Sprintf("canFail=%v", want),
				"handleRetryBatches is told records can fail although the request got no per-batch response (outcome unknown)")
		}
	}
}

func c02flags(c *Ctx, m *Module) {
	rule := "idempotency-flag-stores"
	funcs := m.FuncsIn("kgo")
	if fv := fieldMust(c, m, "recBatch", "canFailFromLoadErrs"); fv != nil {
		n := 0
		for _, st := range StoreSites(funcs, fv) {
			n++
			c.Touch(st.Fn)
			cons := st.Fn.Key + ": " + nodeStr(st.Node)
			v, isC := constBool(st.Fn.Info(), st.RHS)
			if !isC {
				c.Fail(rule, cons, st.Node.Pos(), m, "non-constant store to canFailFromLoadErrs")
				continue
			}
			if v {
				okw := st.Fn.Key == "kgo.recBuf.newRecordBatch" || st.Fn.Key == "kgo.sink.handleReqRespBatch"
				c.Check(okw, rule, cons, st.Node.Pos(), m, "true at creation / once a response arrived", "canFailFromLoadErrs is re-enabled outside batch creation and response handling: a batch in flight could be failed")
			} else {
				c.Check(st.Fn.Key == "kgo.produceRequest.AppendTo", rule, cons, st.Node.Pos(), m, "false when the batch is written", "canFailFromLoadErrs is cleared outside AppendTo")
			}
		}
		c.Floor(rule+"#canFail", n, 3)
		// in AppendTo the clear precedes the batch bytes
		if f := c.NeedFunc(m, "kgo.produceRequest.AppendTo"); f != nil {
			info := f.Info()
			for _, st := range storesTo(f.Decl.Body, info, fv, true) {
				g := f.GraphFor(st.Node)
				sl, ok := g.LocOf(st.Node)
				if !ok {
					continue
				}
				okOrder := false
				var body ast.Node = f.Decl.Body
				if lit := innermostLit(f, st.Node); lit != nil {
					body = lit.Body
				}
				ast.Inspect(body, func(x ast.Node) bool {
					if call, ok := x.(*ast.CallExpr); ok {
						if sel, ok := call.Fun.(*ast.SelectorExpr); ok && (sel.Sel.Name == "appendTo" || sel.Sel.Name == "appendToAsMessageSet") {
							if cl, ok := g.LocOf(call); ok && g.Dominates(sl, cl) {
								okOrder = true
							} else if ok {
								okOrder = false
							}
						}
					}
					return true
				})
				c.Check(okOrder, rule, f.Key+"#cleared-before-write", st.Node.Pos(), m, "", "the batch bytes are appended before canFailFromLoadErrs is cleared")
			}
		}
	}
	if fv := fieldMust(c, m, "recBatch", "unsureIfProduced"); fv != nil {
		n := 0
		for _, st := range StoreSites(funcs, fv) {
			n++
			c.Touch(st.Fn)
			v, isC := constBool(st.Fn.Info(), st.RHS)
			okw := isC && (v || st.Kind == "complit")
			c.Check(okw, rule, st.Fn.Key+": "+nodeStr(st.Node), st.Node.Pos(), m, "only ever set (sticky)", "unsureIfProduced is stored a value other than the constant true: a later response can clear it and let an appended batch be failed")
		}
		c.Floor(rule+"#unsure", n, 1)
		// set exactly for REQUEST_TIMED_OUT / NOT_ENOUGH_REPLICAS_AFTER_APPEND
		if f := c.NeedFunc(m, "kgo.sink.handleReqRespBatch"); f != nil {
			g := f.Graph()
			for _, st := range storesTo(f.Decl.Body, f.Info(), fv, false) {
				l, _ := g.LocOf(st.Node)
				okc := factMatches(g.FactsAt(l), func(ft Fact) bool {
					s := nosp(exprStr(ft.Cond))
					return ft.Val && strings.Contains(s, "kerr.RequestTimedOut.Code") && strings.Contains(s, "kerr.NotEnoughReplicasAfterAppend.Code") && strings.Contains(s, "||")
				})
				c.Check(okc, rule, f.Key+"#unsure-codes", st.Node.Pos(), m, "", "unsureIfProduced is not set exactly for REQUEST_TIMED_OUT / NOT_ENOUGH_REPLICAS_AFTER_APPEND")
			}
			// the retry arm bypasses the retry limit when unsure
			okBypass := false
			ast.Inspect(f.Decl.Body, func(x ast.Node) bool {
				if cc, ok := x.(*ast.CaseClause); ok {
					for _, e := range cc.List {
						s := nosp(exprStr(e))
						if strings.Contains(s, "kerr.IsRetriable(err)") && strings.Contains(s, "||batch.unsureIfProduced") {
							okBypass = true
						}
					}
				}
				return true
			})
			c.Check(okBypass, rule, f.Key+"#unsure-bypasses-retry-limit", f.Pos(), m, "", "a retriable error on an unsure batch is not retried past the retry limit")
		}
	}
}

func c02ordered(c *Ctx, m *Module) {
	funcs := m.FuncsIn("kgo")
	rule := "ordered-response-worker"
	hs := m.Func("kgo.sink.handleSeqResps")
	ds := c.NeedFunc(m, "kgo.sink.doSequenced")
	if hs == nil || ds == nil {
		c.Undecided("anchor", "kgo.sink.handleSeqResps", 0, m, "not found")
		return
	}
	n := 0
	for _, site := range CallSites(funcs, hs.Obj) {
		n++
		isGo := false
		ast.Inspect(site.Fn.Decl.Body, func(x ast.Node) bool {
			if gs, ok := x.(*ast.GoStmt); ok && gs.Call == site.Node {
				isGo = true
			}
			return true
		})
		g := site.Fn.GraphFor(site.Node)
		l, _ := g.LocOf(site.Node)
		first := factMatches(g.FactsAt(l), func(ft Fact) bool { id, ok := ft.Cond.(*ast.Ident); return ok && id.Name == "first" && ft.Val })
		c.Check(site.Fn == ds && isGo && first, rule, site.Fn.Key+": handleSeqResps", site.Node.Pos(), m, "started only on first push", "the ordered response worker is started outside `if first` of the seqResps push")
	}
	c.Floor(rule, n, 1)
	// handleReqResp only via the doSequenced promise in sink.produce
	hr := m.Func("kgo.sink.handleReqResp")
	if hr != nil {
		for _, site := range CallSites(funcs, hr.Obj) {
			okc := site.Fn.Key == "kgo.sink.produce" && site.Lit != nil
			c.Check(okc, rule, site.Fn.Key+": handleReqResp", site.Node.Pos(), m, "only through the sequenced promise", "handleReqResp is invoked outside the promise handed to doSequenced: responses may be processed out of order")
		}
	}
	// doSequenced: every path pushes wait into seqResps exactly once
	{
		info := ds.Info()
		spec := OnceSpec{Call: func(call *ast.CallExpr) Event {
			if calleeName(info, call) == "kgo.ring.push" {
				return Event{Kind: EvOnce}
			}
			return Event{}
		}}
		onceRule(c, m, rule, ds, ds.Decl.Body, ds.Graph(), ds.Key+"#push-once", spec, 1)
	}
	// handleSeqResps: waits for done before running the promise; loops on dropPeek
	{
		g := hs.Graph()
		info := hs.Info()
		var waitLoc, promLoc Loc
		hw, hp := false, false
		ast.Inspect(hs.Decl.Body, func(x ast.Node) bool {
			if u, ok := x.(*ast.UnaryExpr); ok && u.Op == token.ARROW && nosp(exprStr(u.X)) == "wait.done" {
				waitLoc, hw = g.LocOf(u)
			}
			if call, ok := x.(*ast.CallExpr); ok && nosp(exprStr(call.Fun)) == "wait.promise" {
				promLoc, hp = g.LocOf(call)
			}
			return true
		})
		okDrop := false
		ast.Inspect(hs.Decl.Body, func(x ast.Node) bool {
			if as, ok := x.(*ast.AssignStmt); ok && len(as.Rhs) == 1 {
				if call, ok := as.Rhs[0].(*ast.CallExpr); ok && calleeName(info, call) == "kgo.ring.dropPeek" && exprStr(as.Lhs[0]) == "wait" {
					okDrop = true
				}
			}
			return true
		})
		c.Check(hw && hp && g.Dominates(waitLoc, promLoc) && okDrop, rule, hs.Key, hs.Pos(), m, "waits for the response, runs the promise, continues with the next queued response", "the worker does not wait for each response in queue order before running its promise")
	}
	// handleReqRespBatch: the first-batch test precedes every state change
	if f := c.NeedFunc(m, "kgo.sink.handleReqRespBatch"); f != nil {
		g := f.Graph()
		info := f.Info()
		var guard Loc
		have := false
		ast.Inspect(f.Decl.Body, func(x ast.Node) bool {
			if ifs, ok := x.(*ast.IfStmt); ok && nosp(exprStr(ifs.Cond)) == "!batch.isOwnersFirstBatch()" {
				// body ends with return false, false
				if r, ok := ifs.Body.List[len(ifs.Body.List)-1].(*ast.ReturnStmt); ok && len(r.Results) == 2 {
					a, ok1 := constBool(info, r.Results[0])
					b, ok2 := constBool(info, r.Results[1])
					if ok1 && ok2 && !a && !b {
						guard, have = g.LocOf(ifs.Cond)
					}
				}
			}
			return true
		})
		bad := ""
		if have {
			for _, n := range findNodes(f.Decl.Body, false, func(x ast.Node) bool {
				switch s := x.(type) {
				case *ast.AssignStmt:
					for _, l := range s.Lhs {
						if strings.HasPrefix(exprStr(l), "batch.") {
							return true
						}
					}
				case *ast.CallExpr:
					k := calleeName(info, s)
					return k == "kgo.Client.finishBatch" || k == "kgo.Client.failProducerID"
				}
				return false
			}) {
				l, _ := g.LocOf(n)
				if !g.Dominates(guard, l) {
					bad = nodeStr(n)
				}
			}
		}
		c.Check(have && bad == "", "first-batch-only", f.Key, f.Pos(), m, "responses for non-head batches are ignored before any state change", "state is modified for a batch that is not its owner's first batch: "+bad)
		// finishBatch on success uses rp.BaseOffset
		fb := m.Func("kgo.Client.finishBatch")
		for i, call := range callsTo(f.Decl.Body, info, fb.Obj, false) {
			okA := len(call.Args) == 5 && exprStr(call.Args[0]) == "batch.recBatch" && exprStr(call.Args[3]) == "rp.BaseOffset" && exprStr(call.Args[4]) == "err"
			c.Check(okA, "acked-at-response-offset", fmt.Sprintf("%s#finishBatch%d", f.Key, i), call.Pos(), m, "", "finishBatch is not given (batch, ..., rp.BaseOffset, err)")
		}
	}
	if f := c.NeedFunc(m, "kgo.Client.finishBatch"); f != nil {
		want := []string{"recBuf.batch0Seq=incrementSequence(recBuf.batch0Seq,int32(finished))", "recBuf.batches=recBuf.batches[1:]", "recBuf.batchDrainIdx--", "finished:=len(batch.records)"}
		got := map[string]bool{}
		ast.Inspect(f.Decl.Body, func(x ast.Node) bool {
			if s, ok := x.(ast.Stmt); ok {
				got[nosp(nodeStr(s))] = true
			}
			return true
		})
		if got["recBuf.batchDrainIdx-=1"] {
			got["recBuf.batchDrainIdx--"] = true
		}
		var missing []string
		for _, w := range want {
			if !got[w] {
				missing = append(missing, w)
			}
		}
		c.Check(len(missing) == 0, "finish-pops-head", f.Key, f.Pos(), m, "head batch popped, batch0Seq advanced by its size", "finishBatch no longer contains: "+strings.Join(missing, "; "))
		// offsets: baseOffset passed through to the promise
		okOff := false
		ast.Inspect(f.Decl.Body, func(x ast.Node) bool {
			if kv, ok := x.(*ast.KeyValueExpr); ok && exprStr(kv.Key) == "baseOffset" && exprStr(kv.Value) == "baseOffset" {
				okOff = true
			}
			return true
		})
		c.Check(okOff, "acked-at-response-offset", f.Key+"#promise-offset", f.Pos(), m, "", "the promise batch does not carry the response's base offset")
	}
	if f := c.NeedFunc(m, "kgo.producer.finishPromises"); f != nil {
		okOff := false
		ast.Inspect(f.Decl.Body, func(x ast.Node) bool {
			if as, ok := x.(*ast.AssignStmt); ok && len(as.Lhs) == 1 && exprStr(as.Lhs[0]) == "pr.Offset" && nosp(exprStr(as.Rhs[0])) == "b.baseOffset+int64(i)" {
				okOff = true
			}
			return true
		})
		c.Check(okOff, "acked-at-response-offset", f.Key+"#record-offset", f.Pos(), m, "record i gets baseOffset+i", "record offsets are not baseOffset + index")
	}
}

func c02gate(c *Ctx, m *Module) {
	rule := "one-in-flight-gate"
	funcs := m.FuncsIn("kgo")
	if f := c.NeedFunc(m, "kgo.sink.createReq"); f != nil {
		info := f.Info()
		g := f.Graph()
		tab := m.Method("kgo", "produceRequest", "tryAddBatch")
		for _, call := range callsTo(f.Decl.Body, info, tab, false) {
			l, _ := g.LocOf(call)
			var conds []string
			for _, ft := range g.FactsAt(l) {
				if !ft.Val {
					conds = append(conds, nosp(exprStr(ft.Cond)))
				}
			}
			all := strings.Join(conds, " ; ")
			var missing []string
			for _, w := range []string{"recBuf.failing", "len(recBuf.batches)==recBuf.batchDrainIdx", "recBuf.inflightOnSink!=nil&&recBuf.inflightOnSink!=s", "recBuf.inflight!=0&&!recBuf.okOnSink"} {
				if !strings.Contains(all, w) {
					missing = append(missing, w)
				}
			}
			c.Check(len(missing) == 0, rule, f.Key+"#skip-condition", call.Pos(), m, "a recBuf is drained only if not failing, has undrained batches, is not in flight on another sink, and either has nothing in flight or its last response on this sink was ok",
				"createReq drains a recBuf without checking: "+strings.Join(missing, ", "))
		}
		// staging bookkeeping present
		want := []string{"recBuf.inflightOnSink=s", "recBuf.inflight++", "recBuf.batchDrainIdx++"}
		got := map[string]bool{}
		ast.Inspect(f.Decl.Body, func(x ast.Node) bool {
			if s, ok := x.(ast.Stmt); ok {
				got[nosp(nodeStr(s))] = true
			}
			return true
		})
		var missing []string
		for _, w := range want {
			if !got[w] {
				missing = append(missing, w)
			}
		}
		c.Check(len(missing) == 0, rule, f.Key+"#staging", f.Pos(), m, "", "createReq no longer records: "+strings.Join(missing, "; "))
	}
	if fv := fieldMust(c, m, "recBuf", "okOnSink"); fv != nil {
		n := 0
		for _, st := range StoreSites(funcs, fv) {
			n++
			c.Touch(st.Fn)
			cons := st.Fn.Key + ": " + nodeStr(st.Node)
			v, isC := constBool(st.Fn.Info(), st.RHS)
			if !isC {
				c.Fail(rule, cons, st.Node.Pos(), m, "non-constant store to okOnSink")
				continue
			}
			if v {
				g := st.Fn.GraphFor(st.Node)
				l, _ := g.LocOf(st.Node)
				facts := g.FactsAt(l)
				sameSink := factMatches(facts, func(ft Fact) bool { return ft.Val && nosp(exprStr(ft.Cond)) == "batch.owner.sink==s" })
				noErr := factMatches(facts, func(ft Fact) bool { return !ft.Val && nosp(exprStr(ft.Cond)) == "err!=nil" })
				c.Check(st.Fn.Key == "kgo.sink.handleReqRespBatch" && sameSink && noErr, rule, cons, st.Node.Pos(), m, "credited only to the sink that got a successful response", "okOnSink is set true outside the success arm under batch.owner.sink == s: a migrated partition could pipeline before its first ack")
			} else {
				okw := st.Fn.Key == "kgo.sink.handleReqRespBatch" || st.Fn.Key == "kgo.topicPartition.migrateProductionTo"
				c.Check(okw, rule, cons, st.Node.Pos(), m, "", "okOnSink cleared at an unexpected site")
			}
		}
		c.Floor(rule+"#okOnSink", n, 3)
	}
}

func c02epoch(c *Ctx, m *Module) {
	rule := "epoch-recheck-before-issue"
	f := c.NeedFunc(m, "kgo.sink.produce")
	if f == nil {
		return
	}
	info := f.Info()
	g := f.Graph()
	ds := m.Method("kgo", "sink", "doSequenced")
	cr := m.Method("kgo", "sink", "createReq")
	var crLoc Loc
	haveCr := false
	for _, call := range callsTo(f.Decl.Body, info, cr, false) {
		crLoc, haveCr = g.LocOf(call)
	}
	for _, call := range callsTo(f.Decl.Body, info, ds, false) {
		l, _ := g.LocOf(call)
		facts := g.FactsAt(l)
		var missing []string
		for _, w := range []string{"cur.id!=id", "cur.epoch!=epoch", "cur.err!=nil"} {
			if !factMatches(facts, func(ft Fact) bool { return !ft.Val && nosp(exprStr(ft.Cond)) == w }) {
				missing = append(missing, w)
			}
		}
		c.Check(len(missing) == 0 && haveCr && g.Dominates(crLoc, l), rule, f.Key+": doSequenced", call.Pos(), m, "issued only if the producer id/epoch are unchanged and unfailed since createReq", "the request is issued without re-checking: "+strings.Join(missing, ", "))
	}
	// the mismatch arm undoes staging and returns true; cur is the atomically loaded producer id
	okUndo := false
	ast.Inspect(f.Decl.Body, func(x ast.Node) bool {
		ifs, ok := x.(*ast.IfStmt)
		if !ok || ifs.Init == nil || !strings.Contains(nosp(exprStr(ifs.Cond)), "cur.id!=id") {
			return true
		}
		if as, ok := ifs.Init.(*ast.AssignStmt); ok && strings.Contains(nosp(exprStr(as.Rhs[0])), "producer.id.Load()") && len(ifs.Body.List) == 2 {
			if es, ok := ifs.Body.List[0].(*ast.ExprStmt); ok {
				if call, ok := es.X.(*ast.CallExpr); ok && calleeName(info, call) == "kgo.produceRequest.undoStagedBatches" {
					if r, ok := ifs.Body.List[1].(*ast.ReturnStmt); ok && len(r.Results) == 1 {
						v, okc := constBool(info, r.Results[0])
						okUndo = okc && v
					}
				}
			}
		}
		return true
	})
	c.Check(okUndo, rule, f.Key+"#undo", f.Pos(), m, "", "the epoch-mismatch arm does not undo the staged batches and retry")
	// producerID is loaded before createReq
	pid := m.Method("kgo", "Client", "producerID")
	for _, call := range callsTo(f.Decl.Body, info, pid, false) {
		l, _ := g.LocOf(call)
		c.Check(haveCr && g.Dominates(l, crLoc), rule, f.Key+"#id-before-req", call.Pos(), m, "", "the request is created before the producer id is loaded")
	}
}

func c02frozen(c *Ctx, m *Module) {
	rule := "sent-batch-frozen"
	if f := c.NeedFunc(m, "kgo.recBatch.tryBuffer"); f != nil {
		g := f.Graph()
		info := f.Info()
		ar := m.Method("kgo", "recBatch", "appendRecord")
		n := 0
		for _, call := range callsTo(f.Decl.Body, info, ar, false) {
			n++
			l, _ := g.LocOf(call)
			facts := g.FactsAt(l)
			fr := factMatches(facts, func(ft Fact) bool { return !ft.Val && nosp(exprStr(ft.Cond)) == "b.frozen" })
			sz := factMatches(facts, func(ft Fact) bool { return !ft.Val && nosp(exprStr(ft.Cond)) == "newBatchLength>maxBatchBytes" })
			c.Check(fr && sz, rule, f.Key+": appendRecord", call.Pos(), m, "never into a frozen (already sent) or full batch", "a record can be appended to a batch that is frozen (already staged in a request: a retry would carry a different record set under the same sequence) or over the size limit")
		}
		c.Floor(rule, n, 1)
	}
	if f := c.NeedFunc(m, "kgo.produceRequest.tryAddBatch"); f != nil {
		g := f.Graph()
		info := f.Info()
		fz := fieldMust(c, m, "recBatch", "frozen")
		ab := m.Method("kgo", "seqRecBatches", "addBatch")
		var fl Loc
		have := false
		for _, st := range storesTo(f.Decl.Body, info, fz, false) {
			if v, ok := constBool(info, st.RHS); ok && v {
				fl, have = g.LocOf(st.Node)
			}
		}
		for _, call := range callsTo(f.Decl.Body, info, ab, false) {
			l, _ := g.LocOf(call)
			c.Check(have && g.Dominates(fl, l), rule, f.Key+"#freeze-before-stage", call.Pos(), m, "", "the batch is staged into a request without being frozen first")
		}
		if fz != nil {
			for _, st := range StoreSites(m.FuncsIn("kgo"), fz) {
				v, ok := constBool(st.Fn.Info(), st.RHS)
				c.Check(ok && (v || st.Kind == "complit"), rule, st.Fn.Key+": "+nodeStr(st.Node), st.Node.Pos(), m, "", "frozen is cleared after being set")
			}
		}
	}
	_ = types.Typ
}
