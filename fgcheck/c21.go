package main

import (
	"fmt"
	"go/ast"
	"go/token"
	"strings"
)

func init() {
	register(&Prop{
		ID:        "C21",
		Level:     "other",
		Technique: "clamp-discipline rule over every store to the negotiated bounds in broker.handleReq (guard facts), ordering rule (no bound is applied after the feasibility check), must-pass-through of the broker-version table store in requestAPIVersions, loop-variant rule for the KIP-511 downgrade, per-iteration freshness of the request object in every per-broker shard, value-derivation of the forwarded context",
		Explanation: "(1) in handleReq, after ourMax = req.MaxVersion() and ourMin = -1, every store ourMax = X is guarded by X < ourMax and every store ourMin = X by X > ourMin (the pinned minimum may be the first, unguarded store); each of the six bound sources (pinned max/min, broker max/min, user max/min) has its clamp; " +
			"(2) all clamps precede the feasibility check: the version is set once, with SetVersion(ourMax), only after `ourMin > -1 && ourMin > ourMax` and `userMin > ourMax` were found false, and no store to either bound is reachable after those checks; the rejecting arms complete the request with an error and return without writing; a request whose key the user's MaxVersions lacks, or that the broker does not support, is rejected before negotiation; " +
			"(3) requestAPIVersions stores the version table parsed from THIS connection's response on every successful return (a cached table from another connection is never kept instead), built from every advertised key's min and max; " +
			"(4) a KIP-511 downgrade is accepted only for 0 <= v < maxVersion (strictly decreasing, so the retry loop terminates), and an UNSUPPORTED_VERSION reply to v0 fails; " +
			"(5) the negotiated version is stored in the request object and read back at serialisation, so every issueShard built in a per-broker loop carries a request created in that iteration (closures handed to allBrokersShardedReq return a copy made inside the closure); " +
			"(6) pins reach handleReq as context values: wherever a kgo function forwards its request parameter together with a context, that context is the function's own context parameter or context.With*(…) of it (greatest-fixpoint derivation over all assignments), never one rebuilt from cl.ctx; " +
			"(7) connection init requests ApiVersions under a guard that holds for every user maximum >= 0 of key 18 (a cap of exactly v0 still asks; only a MaxVersions without key 18 skips it), and a context carrying a pin is built per piece of a split from that piece's own pin (never cached across the pieces, which can carry different pins).",
		NotDecided: "nothing value-level beyond comparisons (the function touches versions only through < and >); that every request type's MaxVersion() is what the codec supports is C24.",
		Run:        runC21,
	})
}

func runC21(c *Ctx) {
	m := c.Load("")
	if m == nil {
		return
	}
	f := c.NeedFunc(m, "kgo.broker.handleReq")
	if f != nil {
		c21handle(c, m, f)
	}
	if r := c.NeedFunc(m, "kgo.brokerCxn.requestAPIVersions"); r != nil {
		c21apiVersions(c, m, r)
		c21apiVersionsUserMax(c, m, r)
	}
	c21versionsStore(c, m)
	c21perBrokerRequest(c, m)
	c21pinContext(c, m)
	c21apiVersionsIssued(c, m)
	c21pinPerPiece(c, m)
}

// c21versionsStore: the table a connection's ApiVersions response advertised
// replaces the broker's table unconditionally (a plain Store): a later
// connection of the same broker object (another connection kind, a reconnect
// after a downgrade) may advertise smaller ranges, and requests on it are
// clamped against broker.versions.
func c21versionsStore(c *Ctx, m *Module) {
	rule := "broker-versions-stored-per-connection"
	fv := m.Field("kgo", "broker", "versions")
	if fv == nil {
		c.Undecided("anchor", "kgo.broker.versions", 0, m, "field not found")
		return
	}
	n := 0
	for _, s := range StoreSites(m.FuncsIn("kgo"), fv) {
		if s.Kind == "complit" {
			continue
		}
		n++
		cons := s.Fn.Key + ": broker.versions " + s.Kind
		switch s.Fn.Key {
		case "kgo.broker.storeVersions":
			okArg := false
			if id, ok := unparen(s.RHS).(*ast.Ident); ok && len(s.Fn.Decl.Type.Params.List) == 1 {
				for _, nm := range s.Fn.Decl.Type.Params.List[0].Names {
					if s.Fn.Info().Uses[id] == s.Fn.Info().Defs[nm] {
						okArg = true
					}
				}
			}
			g := s.Fn.GraphFor(s.Node)
			l, okl := g.LocOf(s.Node)
			if !okl {
				l, okl = g.LocOf(enclosingStmt(s.Fn.Decl.Body, s.Node))
			}
			uncond := okl && len(g.FactsAt(l)) == 0
			c.Check(s.Kind == "atomic:Store" && okArg && uncond, rule, cons, s.Node.Pos(), m, "unconditional Store of the given table", "storeVersions does not unconditionally replace the broker's version table ("+s.Kind+"): the table of the first connection is kept, and requests on a later connection that advertised smaller ranges are written above the broker's advertised maximum")
		default:
			c.Fail(rule, cons, s.Node.Pos(), m, "unexpected writer of broker.versions")
		}
	}
	c.Floor(rule+"/stores", n, 1)
}

// c21apiVersionsUserMax: the ApiVersions request itself honours the user's
// MaxVersions for key 18, including a cap of exactly 0.
func c21apiVersionsUserMax(c *Ctx, m *Module, f *Func) {
	rule := "apiversions-honours-user-max"
	info := f.Info()
	g := f.Graph()
	var lookup *ast.CallExpr
	for _, call := range callsNamed(f.Decl.Body, info, "LookupMaxKeyVersion", false) {
		lookup = call
	}
	if lookup == nil {
		c.Fail(rule, f.Key+": LookupMaxKeyVersion(18)", f.Pos(), m, "the user's MaxVersions is not consulted for the ApiVersions request")
		return
	}
	v, isC := int64(-1), false
	if len(lookup.Args) == 1 {
		v, isC = constInt(info, lookup.Args[0])
	}
	c.Check(isC && v == 18, rule, f.Key+": LookupMaxKeyVersion(18)", lookup.Pos(), m, "", "the lookup is not for key 18 (ApiVersions)")
	// the store maxVersion = userMax is guarded only by `exists` and a non-negativity test of userMax
	mv := localObj(f, "maxVersion")
	n := 0
	ast.Inspect(f.Decl.Body, func(x ast.Node) bool {
		as, ok := x.(*ast.AssignStmt)
		if !ok || len(as.Lhs) != 1 || len(as.Rhs) != 1 {
			return true
		}
		id, ok := as.Lhs[0].(*ast.Ident)
		if !ok || info.Uses[id] != mv || exprStr(as.Rhs[0]) != "userMax" {
			return true
		}
		n++
		l, _ := g.LocOf(as)
		var bad []string
		for _, ft := range g.FactsAt(l) {
			s := nosp(exprStr(ft.Cond))
			switch {
			case ft.Val && s == "exists":
			case ft.Val && (s == "userMax>=0" || s == "0<=userMax" || s == "userMax>-1"):
			case !ft.Val && (s == "userMax<0" || s == "!exists"):
			case strings.Contains(s, "tries") || strings.Contains(s, "maxVersions"):
			default:
				if strings.Contains(s, "userMax") {
					bad = append(bad, s)
				}
			}
		}
		c.Check(len(bad) == 0, rule, f.Key+": maxVersion = userMax", as.Pos(), m, "for every non-negative cap, including 0", "the user's cap is applied only under "+strings.Join(bad, ", ")+": a MaxVersions cap of v0 for ApiVersions (kversion.V0_10_x) is ignored and the request is written at v4")
		return true
	})
	c.Check(n == 1, rule, f.Key+"#cap-applied", f.Pos(), m, "", "maxVersion = userMax not found")
}

func c21handle(c *Ctx, m *Module, f *Func) {
	rule := "version-clamp-discipline"
	g := f.Graph()
	type store struct {
		as  *ast.AssignStmt
		l   Loc
		rhs string
	}
	stores := map[string][]store{}
	ast.Inspect(f.Decl.Body, func(x ast.Node) bool {
		if _, ok := x.(*ast.FuncLit); ok {
			return false
		}
		as, ok := x.(*ast.AssignStmt)
		if !ok || len(as.Lhs) != 1 || len(as.Rhs) != 1 {
			return true
		}
		v := exprStr(as.Lhs[0])
		if v == "ourMax" || v == "ourMin" {
			l, _ := g.LocOf(as)
			stores[v] = append(stores[v], store{as, l, nosp(exprStr(as.Rhs[0]))})
		}
		return true
	})
	wantSrc := map[string][]string{"ourMax": {"pr.max", "brokerMax", "userMax"}, "ourMin": {"pr.min", "brokerMin", "userMin"}}
	for _, v := range []string{"ourMax", "ourMin"} {
		seen := map[string]bool{}
		var initLoc Loc
		haveInit := false
		for _, s := range stores[v] {
			cons := f.Key + ": " + nodeStr(s.as)
			if s.as.Tok == token.DEFINE {
				want := "req.MaxVersion()"
				if v == "ourMin" {
					want = "int16(-1)"
				}
				initLoc, haveInit = s.l, true
				c.Check(s.rhs == want, rule, cons, s.as.Pos(), m, "initialised to "+want, v+" is initialised to "+s.rhs)
				continue
			}
			seen[s.rhs] = true
			facts := g.FactsAt(s.l)
			op := "<"
			if v == "ourMin" {
				op = ">"
			}
			guarded := factMatches(facts, func(ft Fact) bool { return ft.Val && nosp(exprStr(ft.Cond)) == s.rhs+op+v })
			if !guarded && v == "ourMin" && s.rhs == "pr.min" {
				// the pinned minimum may be the first store after the -1 initialisation
				first := true
				for _, o := range stores[v] {
					if o.as != s.as && o.as.Tok != token.DEFINE && (g.reachFwd(o.l, s.l) || g.Dominates(o.l, s.l)) {
						first = false
					}
				}
				pin := factMatches(facts, func(ft Fact) bool { return ft.Val && nosp(exprStr(ft.Cond)) == "pr.pinMin" })
				guarded = first && pin
			}
			c.Check(guarded, rule, cons, s.as.Pos(), m, "only tightens the bound", fmt.Sprintf("%s = %s is not guarded by `%s %s %s`: the bound can be loosened", v, s.rhs, s.rhs, op, v))
		}
		c.Check(haveInit, rule, f.Key+"#"+v+"-init", f.Pos(), m, "", v+" initialisation not found")
		_ = initLoc
		for _, src := range wantSrc[v] {
			c.Check(seen[src], rule, f.Key+"#"+v+"<-"+src, f.Pos(), m, "bound source has a clamp", "no clamp of "+v+" by "+src+" (the written version can violate that bound)")
		}
	}
	// feasibility check and SetVersion
	rule2 := "version-set-after-all-bounds"
	var setLoc Loc
	nSet := 0
	ast.Inspect(f.Decl.Body, func(x ast.Node) bool {
		call, ok := x.(*ast.CallExpr)
		if ok && nosp(exprStr(call.Fun)) == "req.SetVersion" {
			nSet++
			setLoc, _ = g.LocOf(call)
			c.Check(len(call.Args) == 1 && exprStr(call.Args[0]) == "ourMax", rule2, f.Key+": "+exprStr(call), call.Pos(), m, "highest permitted version", "SetVersion is not given ourMax")
		}
		return true
	})
	c.Check(nSet == 1, rule2, f.Key+"#single-SetVersion", f.Pos(), m, "", fmt.Sprintf("expected one SetVersion call, found %d", nSet))
	if nSet == 1 {
		facts := g.FactsAt(setLoc)
		feasible := factMatches(facts, func(ft Fact) bool { return !ft.Val && nosp(exprStr(ft.Cond)) == "ourMin>-1&&ourMin>ourMax" })
		c.Check(feasible, rule2, f.Key+"#feasibility", f.Pos(), m, "written only when min <= max", "SetVersion is reachable without the `ourMin > -1 && ourMin > ourMax` rejection having been evaluated false")
		// no store reachable after the feasibility condition
		var chk Loc
		haveChk := false
		for _, b := range g.C.Blocks {
			if cond, _, ok := g.condOf(b); ok && nosp(exprStr(cond)) == "ourMin>-1&&ourMin>ourMax" {
				chk, haveChk = g.LocOf(cond)
			}
		}
		for _, v := range []string{"ourMax", "ourMin"} {
			for _, s := range stores[v] {
				late := haveChk && (g.reachFwd(chk, s.l) || g.Dominates(chk, s.l))
				c.Check(!late, rule2, f.Key+": "+nodeStr(s.as)+"#before-check", s.as.Pos(), m, "applied before the feasibility check", "a bound is applied after the min<=max feasibility check: the chosen version can end up below the broker's or a pinned minimum without the request being rejected")
				c.Check(g.Dominates(s.l, setLoc) || !g.reachFwd(setLoc, s.l), rule2, f.Key+": "+nodeStr(s.as)+"#before-set", s.as.Pos(), m, "", "bound modified after SetVersion")
			}
		}
		// the user-min rejection precedes too
		okUser := false
		for _, b := range g.C.Blocks {
			if cond, _, ok := g.condOf(b); ok && nosp(exprStr(cond)) == "userMin>ourMax" {
				cl, _ := g.LocOf(cond)
				okUser = g.reachFwd(cl, setLoc)
			}
		}
		c.Check(okUser, rule2, f.Key+"#user-min-rejection", f.Pos(), m, "", "no `userMin > ourMax` rejection before the version is set")
	}
	// rejecting arms: promise(nil, err) then return
	rule3 := "unsatisfiable-version-rejected"
	for _, want := range []string{"errBrokerTooOld", "errUnknownRequestKey"} {
		n := 0
		ast.Inspect(f.Decl.Body, func(x ast.Node) bool {
			bs, ok := x.(*ast.BlockStmt)
			if !ok {
				return true
			}
			for i, st := range bs.List {
				es, ok := st.(*ast.ExprStmt)
				if !ok {
					continue
				}
				call, ok := es.X.(*ast.CallExpr)
				if !ok || nosp(exprStr(call.Fun)) != "pr.promise" || len(call.Args) != 2 || exprStr(call.Args[1]) != want {
					continue
				}
				n++
				_, isRet := ast.Stmt(nil), false
				if i+1 < len(bs.List) {
					_, isRet = bs.List[i+1].(*ast.ReturnStmt)
				}
				l, _ := g.LocOf(call)
				before := nSet == 1 && !g.reachFwd(setLoc, l)
				c.Check(isRet && exprStr(call.Args[0]) == "nil" && before, rule3, f.Key+": promise("+want+")", call.Pos(), m, "fails the request and returns without writing", "the "+want+" arm does not fail the request and return before anything is written")
			}
			return true
		})
		c.Check(n >= 1, rule3, f.Key+"#has:"+want, f.Pos(), m, "", "rejection with "+want+" not found")
	}
	// user max key presence + broker support checks precede negotiation
	okKey, okBroker := false, false
	ast.Inspect(f.Decl.Body, func(x ast.Node) bool {
		if ifs, ok := x.(*ast.IfStmt); ok {
			s := nosp(exprStr(ifs.Cond))
			if s == "b.cl.cfg.maxVersions!=nil&&!b.cl.cfg.maxVersions.HasKey(req.Key())" {
				okKey = true
			}
			if s == "v.maxVersion(0)>=0&&v.maxVersion(req.Key())<0" {
				okBroker = true
			}
		}
		return true
	})
	c.Check(okKey && okBroker, rule3, f.Key+"#unknown-key-and-unsupported", f.Pos(), m, "", "requests whose key the user's MaxVersions lacks / the broker does not support are not rejected up front")
	// write happens after SetVersion
	wr := m.Func("kgo.brokerCxn.writeRequest")
	if wr != nil && nSet == 1 {
		for _, call := range callsTo(f.Decl.Body, f.Info(), wr.Obj, false) {
			l, _ := g.LocOf(call)
			c.Check(g.Dominates(setLoc, l), rule3, f.Key+": writeRequest", call.Pos(), m, "written only after negotiation", "the request can be written without having been through version negotiation")
		}
	}
}

func c21apiVersions(c *Ctx, m *Module, f *Func) {
	rule := "broker-versions-stored-per-connection"
	g := f.Graph()
	info := f.Info()
	var storeLoc Loc
	nStore := 0
	ast.Inspect(f.Decl.Body, func(x ast.Node) bool {
		call, ok := x.(*ast.CallExpr)
		if ok && calleeName(info, call) == "kgo.broker.storeVersions" {
			nStore++
			storeLoc, _ = g.LocOf(call)
			c.Check(len(call.Args) == 1 && exprStr(call.Args[0]) == "v", rule, f.Key+": "+exprStr(call), call.Pos(), m, "", "storeVersions is not given the freshly built table")
		}
		return true
	})
	c.Check(nStore == 1, rule, f.Key+"#store", f.Pos(), m, "", "storeVersions call not found")
	if nStore == 1 {
		// every `return nil` is preceded by the store
		for _, rn := range findNodes(f.Decl.Body, false, func(x ast.Node) bool { _, ok := x.(*ast.ReturnStmt); return ok }) {
			r := rn.(*ast.ReturnStmt)
			if len(r.Results) == 1 && exprStr(r.Results[0]) == "nil" {
				l, _ := g.LocOf(r)
				c.Check(g.Dominates(storeLoc, l), rule, f.Key+": return nil", r.Pos(), m, "success only after storing this connection's table", "requestAPIVersions can succeed without storing the versions this connection's broker advertised: a later connection keeps negotiating against a stale table")
			}
		}
	}
	body := nows(stripComments(printNode(m.Fset, f.Decl.Body)))
	c.Check(strings.Contains(body, "v:=newBrokerVersions(len(resp.ApiKeys))for_,key:=rangeresp.ApiKeys{v.maxVers[key.ApiKey]=key.MaxVersionv.minVers[key.ApiKey]=key.MinVersion}"), rule, f.Key+"#table", f.Pos(), m, "every advertised key's min and max", "the version table is not built from every advertised key's MinVersion/MaxVersion")
	// KIP-511 loop variant
	rule2 := "apiversions-downgrade-terminates"
	okVar := false
	ast.Inspect(f.Decl.Body, func(x ast.Node) bool {
		ifs, ok := x.(*ast.IfStmt)
		if !ok || ifs.Init == nil {
			return true
		}
		if nosp(nodeStr(ifs.Init)) == "v:=resp.ApiKeys[0].MaxVersion" && nosp(exprStr(ifs.Cond)) == "v>=0&&v<maxVersion" {
			var ss []string
			for _, s := range ifs.Body.List {
				ss = append(ss, nosp(nodeStr(s)))
			}
			okVar = len(ss) >= 2 && ss[0] == "maxVersion=v" && ss[len(ss)-1] == "gotostart"
		}
		return true
	})
	c.Check(okVar, rule2, f.Key+"#kip511", f.Pos(), m, "downgrade only to 0 <= v < maxVersion", "the KIP-511 downgrade is accepted without `v >= 0 && v < maxVersion` (a broker could keep the client looping, or push it to a higher version)")
	okZero := strings.Contains(body, "ifmaxVersion==0{returnerrors.New(")
	c.Check(okZero, rule2, f.Key+"#v0-unsupported", f.Pos(), m, "", "UNSUPPORTED_VERSION to a v0 request is not a failure")
	// exactly two retries: the v0 fallback (after the maxVersion == 0 failure check) and the KIP-511 downgrade
	nGoto := 0
	ast.Inspect(f.Decl.Body, func(x ast.Node) bool {
		if b, ok := x.(*ast.BranchStmt); ok && b.Tok == token.GOTO {
			nGoto++
			okArm := blockHasStmt(f, b, "maxVersion=0") || blockHasStmt(f, b, "maxVersion=v")
			c.Check(okArm, rule2, f.Key+fmt.Sprintf(": goto start#%d", nGoto), b.Pos(), m, "retry only after lowering maxVersion", "a retry of ApiVersions is not preceded by lowering maxVersion")
		}
		return true
	})
	c.Check(nGoto == 2, rule2, f.Key+"#retries", f.Pos(), m, "", fmt.Sprintf("expected 2 retry sites, found %d", nGoto))
}

// blockHasStmt: the innermost block/case containing n has a statement with the normalised text.
func blockHasStmt(f *Func, n ast.Node, text string) bool {
	found := false
	ast.Inspect(f.Decl.Body, func(x ast.Node) bool {
		var list []ast.Stmt
		switch b := x.(type) {
		case *ast.BlockStmt:
			list = b.List
		case *ast.CaseClause:
			list = b.Body
		}
		has, hasN := false, false
		for _, s := range list {
			if nosp(nodeStr(s)) == text {
				has = true
			}
			if s == n {
				hasN = true
			}
		}
		if has && hasN {
			found = true
		}
		return true
	})
	return found
}
