package main

import (
	"fmt"
	"go/ast"
	"go/token"
	"go/types"
	"sort"
	"strings"

	"golang.org/x/tools/go/cfg"
)

func init() {
	register(&Prop{
		ID:        "C14",
		Level:     "other",
		Technique: "who-may-call tables for the four record hooks and their helpers (type-resolved interface-method call sites), dominance rules that place the produce hooks unconditionally before every promise path, store classification of the buffered-fetch fields (every non-empty store paired with hookBuffered, every clearing store followed on all paths by the deferred unbuffered hook of the taken copy), removal-pairing rules for the partial takes, capture analysis of the deferred dispatch closure (no aliasing of the fetch's topic/partition arrays), sibling agreement of the gauge walks, and must-pass rules from every take/discard to the dispatch of the deferred hooks",
		Explanation: "(1) produce: OnProduceRecordBuffered is called at exactly one site, in Client.produce, for the record parameter, under no condition other than `hooks registered`, and that site dominates every promise path (promiseRecordBeforeBuf/promiseRecord/loadPartsAndPartition/the admission increment) and every return of produce; OnProduceRecordUnbuffered is called at exactly one site, in finishRecordPromise, with (pr.Record, err); every call of a promisedRec's promise is in finishRecordPromise, has the same (pr.Record, err), and is dominated by the unconditional hook dispatch; err is never reassigned; finishRecordPromise is called only by finishPromises with (pr, b.err, b.beforeBuf) (C01 proves each promise runs exactly once); producer.init registers every hook implementing the interfaces (independent type assertions); produce-rebuffer-once (own rule, complementary to C01's bufferRecord-processed-contract which requires constant results): recBuf.bufferRecord - whose false result makes doPartition offer the same record again - returns a value that is provably true (three-valued evaluation of the returned expression under the branch facts of the path) on every path that failed the record with promiseRecord or appended it, provably false on the arm where tryBuffer aborted without touching it, and true everywhere else; produce-close-sweep (rule function shared with C13's close-sweep): no iteration of failBufferedRecords' topic loop or partition loop can skip failAllRecords (must-pass search from each loop body to its loop head: a `continue` or a guard is reported), so every record still buffered at Close is unbuffered; only the new-batch tryBuffer receives the abort flag; bufferRecord is called only by doPartition, whose re-offer is under `!processed`, passes false and is not in a loop; " +
			"(2) fetch: OnFetchRecordBuffered is called only in source.hookBuffered and OnFetchRecordUnbuffered only in the closure queued by source.hookDeferUnbuffered; hookBuffered/hookDeferUnbuffered are called only from the confirmed buffer/take functions; every store of a non-empty buffered fetch into source.buffered / sourceShare.buffered is followed by hookBuffered(&thatFetch); every clearing store is preceded by a copy of the field and followed on all paths by hookDeferUnbuffered(&copy.fetch, ...); discard passes polled=false, takes pass true; in the two takeNBuffered every advance of the buffered fetch (Topics/Partitions/Records re-slice) is paired with an append of the removed element to the returned or the stripped fetch (or is an advance over an emptied element), and both fetches reach hookDeferUnbuffered on every path; the closure queued by hookDeferUnbuffered captures only the flattened []*Record, the hook slice and the polled flag (never the *Fetch or a topics/partitions slice header, which callers compact in place afterwards) and calls OnFetchRecordUnbuffered(r, polled) for every captured record and hook; the gauges consumer.bufferedRecords/bufferedBytes are written only by hookBuffered (+int64(nrecs), +nbytes) and by both arms of hookDeferUnbuffered (-int64(nrecs), -nbytes), every exit of those functions has passed both Adds, and all walks accumulate nrecs/nbytes identically; " +
			"fetch-buffered-before-publish: consumer.sourcesReadyForDraining grows only inside addSourceReadyForDraining, which is called only by source.fetch and source.shareFetch for their receiver; on every path to that publication hookBuffered has already run, no hookBuffered is reachable after it, the publication follows the store of the fetch and every buffering store reaches it (pollers may take and shrink the fetch in place as soon as the source is published); " +
			"(3) dispatch: consumer.deferredFetchHooks is appended only by hookDeferUnbuffered and swapped to nil only in runDeferredFetchHooks and stopSession, under sourcesReadyMu, after being copied to a local whose every element is called; every call of a poller's fill closure (the only callers of the take functions) is followed on all paths by runDeferredFetchHooks(); every discardBuffered (only in stopSession) is followed by the asynchronous dispatch.",
		NotDecided: "per-record pairing across interleavings of concurrent pollers and invalidations (schedule property); that user hook implementations terminate; exactly-once execution of the promise itself (C01).",
		Run:        runC14,
	})
}

func runC14(c *Ctx) {
	m := c.Load("")
	if m == nil {
		return
	}
	c14produce(c, m)
	c14rebuffer(c, m)
	c13sweepEveryIteration(c, m, "produce-close-sweep", "records buffered in the skipped topic/partition were reported to OnProduceRecordBuffered but are never failed at Close, so OnProduceRecordUnbuffered and their promise never run")
	c14fetchCallers(c, m)
	c14stores(c, m)
	c14publishOrder(c, m)
	c14partialTake(c, m)
	c14capture(c, m)
	c14gauges(c, m)
	c14dispatch(c, m)
}

// ---------------------------------------------------------------------------
// helpers
// ---------------------------------------------------------------------------

func c14ifaceMethod(c *Ctx, m *Module, iface, method string) *types.Func {
	f := m.Method("kgo", iface, method)
	if f == nil {
		c.Undecided("anchor", "kgo."+iface+"."+method, 0, m, "hook interface method not found")
	}
	return f
}

// c14enclosing returns the nearest ancestor of type T of n under root (not
// crossing function literals).
func c14enclosing[T ast.Node](root ast.Node, n ast.Node) (out T, ok bool) {
	parents := parentMap(root)
	for p := parents[n]; p != nil; p = parents[p] {
		if _, isLit := p.(*ast.FuncLit); isLit {
			break
		}
		if t, isT := p.(T); isT {
			return t, true
		}
	}
	return out, ok
}

// c14factsOnly reports whether every branch fact at l mentions the substring.
func c14factsOnly(g *Graph, l Loc, substr string) (bool, []string) {
	var other []string
	for _, ft := range g.FactsAt(l) {
		s := nosp(exprStr(ft.Cond))
		if !strings.Contains(s, substr) {
			other = append(other, s)
		}
	}
	return len(other) == 0, other
}

func c14paramObj(f *Func, idx int) types.Object {
	i := 0
	for _, fld := range f.Decl.Type.Params.List {
		for _, nm := range fld.Names {
			if i == idx {
				return f.Info().Defs[nm]
			}
			i++
		}
	}
	return nil
}

func c14isIdentOf(info *types.Info, e ast.Expr, obj types.Object) bool {
	id, ok := unparen(e).(*ast.Ident)
	return ok && obj != nil && (info.Uses[id] == obj || info.Defs[id] == obj)
}

// c14methodNamedInit finds the method `init` of a kgo type (the loader does
// not index functions named init).
func c14methodNamedInit(c *Ctx, m *Module, recv string) *Func {
	p := m.Pkg("kgo")
	if p != nil {
		for _, file := range p.Syntax {
			for _, d := range file.Decls {
				fd, ok := d.(*ast.FuncDecl)
				if !ok || fd.Body == nil || fd.Name.Name != "init" || fd.Recv == nil || len(fd.Recv.List) == 0 || recvTypeName(fd.Recv.List[0].Type) != recv {
					continue
				}
				obj, _ := p.TypesInfo.Defs[fd.Name].(*types.Func)
				return &Func{Key: "kgo." + recv + ".init", Pkg: p, Decl: fd, Obj: obj, mod: m}
			}
		}
	}
	c.Undecided("anchor", "kgo."+recv+".init", 0, m, "method not found")
	return nil
}

// c14defOf returns the defining expression of a local that is defined once
// with := and never reassigned as a whole (field stores and & are fine).
func c14defOf(f *Func, obj types.Object) ast.Expr {
	if obj == nil {
		return nil
	}
	var def ast.Expr
	n := 0
	ast.Inspect(f.Decl.Body, func(x ast.Node) bool {
		as, ok := x.(*ast.AssignStmt)
		if !ok {
			return true
		}
		for i, l := range as.Lhs {
			id, ok := l.(*ast.Ident)
			if !ok {
				continue
			}
			if f.Info().Defs[id] == obj || f.Info().Uses[id] == obj {
				n++
				if len(as.Rhs) == len(as.Lhs) {
					def = as.Rhs[i]
				}
			}
		}
		return true
	})
	if n == 1 {
		return def
	}
	return nil
}

// c14loopConds returns the conditions of the for statements of f.
func c14loopConds(f *Func) map[ast.Expr]bool {
	out := map[ast.Expr]bool{}
	ast.Inspect(f.Decl.Body, func(x ast.Node) bool {
		if fs, ok := x.(*ast.ForStmt); ok && fs.Cond != nil {
			out[unparen(fs.Cond)] = true
		}
		return true
	})
	return out
}

// ---------------------------------------------------------------------------
// (1) produce side
// ---------------------------------------------------------------------------

func c14produce(c *Ctx, m *Module) {
	funcs := m.FuncsIn("kgo")
	bufM := c14ifaceMethod(c, m, "HookProduceRecordBuffered", "OnProduceRecordBuffered")
	unbM := c14ifaceMethod(c, m, "HookProduceRecordUnbuffered", "OnProduceRecordUnbuffered")
	if bufM == nil || unbM == nil {
		return
	}
	// --- buffered
	rule := "produce-buffered-hook"
	sites := CallSites(funcs, bufM)
	c.Check(len(sites) == 1, rule, "call sites of OnProduceRecordBuffered", 0, m, "exactly one", fmt.Sprintf("OnProduceRecordBuffered is called at %d sites (exactly one confirmed, in Client.produce): a record is reported buffered twice or from a path that is not paired with an unbuffer", len(sites)))
	for _, site := range sites {
		cons := site.Fn.Key + ": OnProduceRecordBuffered"
		if site.Fn.Key != "kgo.Client.produce" || site.Lit != nil {
			c.Fail(rule, cons, site.Node.Pos(), m, "OnProduceRecordBuffered is called outside Client.produce: only produce pairs it with exactly one promise path")
			continue
		}
		f := site.Fn
		c.Touch(f)
		info := f.Info()
		g := f.Graph()
		call := site.Node.(*ast.CallExpr)
		rObj := c14paramObj(f, 1)
		c.Check(len(call.Args) == 1 && c14isIdentOf(info, call.Args[0], rObj), rule, cons+"#arg", call.Pos(), m, "", "the buffered hook is not passed produce's record parameter")
		ifs, okIf := c14enclosing[*ast.IfStmt](f.Decl.Body, call)
		cl, okC := Loc{}, false
		if okIf {
			cl, okC = c13condLoc(g, ifs.Cond)
		}
		if !okIf || !okC {
			// unconditional call: use its own location
			cl, okC = g.LocOf(call)
		}
		if !okC {
			c.Undecided(rule, cons+"#loc", call.Pos(), m, "cannot locate the hook dispatch in the CFG")
			continue
		}
		// the dispatch is unconditional
		okU, other := c14factsOnly(g, cl, "p.hooks")
		c.Check(okU, rule, cons+"#unconditional", call.Pos(), m, "", "the buffered hook dispatch is conditional on "+strings.Join(other, ", ")+": some produced records are never reported buffered but are reported unbuffered")
		hl, _ := g.LocOf(call)
		okH, other := c14factsOnly(g, hl, "p.hooks")
		c.Check(okH, rule, cons+"#only-guarded-by-registration", call.Pos(), m, "", "the buffered hook call is guarded by "+strings.Join(other, ", "))
		// dominates every promise path and return
		n := 0
		paths := map[string]bool{"kgo.producer.promiseRecordBeforeBuf": true, "kgo.producer.promiseRecord": true, "kgo.producer.promiseBatch": true, "kgo.Client.loadPartsAndPartition": true, "kgo.Client.finishRecordPromise": true}
		ast.Inspect(f.Decl.Body, func(x ast.Node) bool {
			var what string
			switch s := x.(type) {
			case *ast.CallExpr:
				if k := c13callKey(info, s); paths[k] {
					what = k
				} else if fv := fieldOfSel(info, s.Fun); fv != nil && fv.Name() == "promise" {
					what = "promise()"
				} else if id, ok := unparen(s.Fun).(*ast.Ident); ok && id.Name == "promise" {
					if v, ok := info.Uses[id].(*types.Var); ok && !v.IsField() {
						what = "promise()"
					}
				}
			case *ast.ReturnStmt:
				if innermostLit(f, s) == nil {
					what = "return"
				}
			case *ast.IncDecStmt:
				if fv := fieldOfSel(info, s.X); fv != nil && fv.Name() == "bufferedRecords" {
					what = "bufferedRecords++"
				}
			}
			if what == "" {
				return true
			}
			// calls inside closures defined after the hook are reached only after it; locate through the defining statement
			var node ast.Node = x
			if lit := innermostLit(f, x); lit != nil {
				outer := lit
				for {
					if o2 := innermostLit(f, outer); o2 != nil {
						outer = o2
					} else {
						break
					}
				}
				node = outer
			}
			l, ok := g.LocOf(node)
			if !ok {
				return true
			}
			n++
			c.Check(g.Dominates(cl, l), rule, fmt.Sprintf("%s#before %s#%d", cons, what, n), x.Pos(), m, "", "`"+what+"` is reachable without passing the buffered hook dispatch: the record's promise (and OnProduceRecordUnbuffered) runs for a record that was never reported buffered")
			return true
		})
		c.Floor(rule+"#promise-paths", n, 8)
	}

	// --- unbuffered
	rule = "produce-unbuffered-hook"
	sites = CallSites(funcs, unbM)
	c.Check(len(sites) == 1, rule, "call sites of OnProduceRecordUnbuffered", 0, m, "exactly one", fmt.Sprintf("OnProduceRecordUnbuffered is called at %d sites (exactly one confirmed, in finishRecordPromise)", len(sites)))
	frp := c.NeedFunc(m, "kgo.Client.finishRecordPromise")
	promiseF := fieldMust(c, m, "promisedRec", "promise")
	if frp == nil || promiseF == nil {
		return
	}
	info := frp.Info()
	g := frp.Graph()
	prObj := c14paramObj(frp, 0)
	errObj := c14paramObj(frp, 1)
	isPrRecord := func(e ast.Expr) bool {
		sel, ok := unparen(e).(*ast.SelectorExpr)
		return ok && sel.Sel.Name == "Record" && c14isIdentOf(info, sel.X, prObj)
	}
	var dispatch Loc
	haveDispatch := false
	for _, site := range sites {
		cons := site.Fn.Key + ": OnProduceRecordUnbuffered"
		if site.Fn.Key != frp.Key || site.Lit != nil {
			c.Fail(rule, cons, site.Node.Pos(), m, "OnProduceRecordUnbuffered is called outside finishRecordPromise: only there it is paired with exactly one promise call and its error")
			continue
		}
		call := site.Node.(*ast.CallExpr)
		c.Check(len(call.Args) == 2 && isPrRecord(call.Args[0]) && c14isIdentOf(info, call.Args[1], errObj), rule, cons+"#args", call.Pos(), m, "(pr.Record, err)", "the unbuffered hook is not passed (pr.Record, err): it must report the record with the error its promise receives")
		ifs, okIf := c14enclosing[*ast.IfStmt](frp.Decl.Body, call)
		cl, okC := Loc{}, false
		if okIf {
			cl, okC = c13condLoc(g, ifs.Cond)
		}
		if !okIf || !okC {
			cl, okC = g.LocOf(call)
		}
		if !okC {
			c.Undecided(rule, cons+"#loc", call.Pos(), m, "cannot locate the hook dispatch in the CFG")
			continue
		}
		dispatch, haveDispatch = cl, true
		okU, other := c14factsOnly(g, cl, "p.hooks")
		c.Check(okU, rule, cons+"#unconditional", call.Pos(), m, "", "the unbuffered hook dispatch is conditional on "+strings.Join(other, ", ")+": records finished on that path were reported buffered by produce but are never reported unbuffered (hook-based gauges drift)")
		hl, _ := g.LocOf(call)
		okH, other := c14factsOnly(g, hl, "p.hooks")
		c.Check(okH, rule, cons+"#only-guarded-by-registration", call.Pos(), m, "", "the unbuffered hook call is guarded by "+strings.Join(other, ", "))
	}
	// every promise call
	nProm := 0
	for _, fn := range funcs {
		ast.Inspect(fn.Decl.Body, func(x ast.Node) bool {
			call, ok := x.(*ast.CallExpr)
			if !ok || !sameField(fieldOfSel(fn.Info(), call.Fun), promiseF) {
				return true
			}
			nProm++
			cons := fmt.Sprintf("%s: promise call#%d", fn.Key, nProm)
			if fn.Key != frp.Key {
				c.Fail(rule, cons, call.Pos(), m, "a record promise is invoked outside finishRecordPromise: OnProduceRecordUnbuffered is skipped for that record")
				return true
			}
			okArgs := len(call.Args) == 2 && isPrRecord(call.Args[0]) && c14isIdentOf(info, call.Args[1], errObj)
			c.Check(okArgs, rule, cons+"#same (pr.Record, err)", call.Pos(), m, "", "the promise is not called with the same (pr.Record, err) the unbuffered hook received")
			if haveDispatch {
				l, _ := g.LocOf(call)
				c.Check(g.Dominates(dispatch, l), rule, cons+"#after the hook dispatch", call.Pos(), m, "", "this promise call is reachable without passing the OnProduceRecordUnbuffered dispatch: records finished on this path (e.g. records failed before buffering, which produce already reported as buffered) get Buffered x1, promise x1, Unbuffered x0")
			}
			return true
		})
	}
	c.Floor(rule+"#promise-calls", nProm, 1)
	// err / pr are never reassigned
	c.Check(len(assignsTo(frp, errObj)) == 0 && len(assignsTo(frp, prObj)) == 0, rule, frp.Key+"#err and pr not reassigned", frp.Pos(), m, "", "finishRecordPromise reassigns err or pr between the hook and the promise")
	// callers
	nCall := 0
	for _, site := range CallSites(funcs, frp.Obj) {
		nCall++
		call := site.Node.(*ast.CallExpr)
		ok := site.Fn.Key == "kgo.producer.finishPromises" && len(call.Args) == 3 && nosp(exprStr(call.Args[1])) == "b.err" && nosp(exprStr(call.Args[2])) == "b.beforeBuf"
		c.Check(ok, rule, site.Fn.Key+": finishRecordPromise(pr, b.err, b.beforeBuf)", call.Pos(), m, "", "finishRecordPromise is called from outside finishPromises or not with the batch's err/beforeBuf")
	}
	c.Floor(rule+"#callers", nCall, 1)

	// --- hook registration
	rule = "produce-hook-registration"
	if f := c14methodNamedInit(c, m, "producer"); f != nil {
		info := f.Info()
		want := map[string]string{"buffered": "HookProduceRecordBuffered", "unbuffered": "HookProduceRecordUnbuffered"}
		got := map[string]bool{}
		ast.Inspect(f.Decl.Body, func(x ast.Node) bool {
			lit, ok := x.(*ast.FuncLit)
			if !ok {
				return true
			}
			for _, st := range lit.Body.List {
				ifs, ok := st.(*ast.IfStmt)
				if !ok || ifs.Init == nil || ifs.Else != nil {
					continue
				}
				as, ok := ifs.Init.(*ast.AssignStmt)
				if !ok || len(as.Rhs) != 1 {
					continue
				}
				ta, ok := unparen(as.Rhs[0]).(*ast.TypeAssertExpr)
				if !ok || ta.Type == nil {
					continue
				}
				tn := exprStr(ta.Type)
				for _, bs := range ifs.Body.List {
					as2, ok := bs.(*ast.AssignStmt)
					if !ok || len(as2.Lhs) != 1 || len(as2.Rhs) != 1 {
						continue
					}
					sel, ok := unparen(as2.Lhs[0]).(*ast.SelectorExpr)
					if !ok || nosp(exprStr(sel.X)) != "p.hooks" {
						continue
					}
					ap, ok := unparen(as2.Rhs[0]).(*ast.CallExpr)
					if !ok || len(ap.Args) != 2 || nosp(exprStr(ap.Args[0])) != nosp(exprStr(as2.Lhs[0])) {
						continue
					}
					if b, ok := calleeObj(info, ap).(*types.Builtin); !ok || b.Name() != "append" {
						continue
					}
					if want[sel.Sel.Name] == tn {
						got[sel.Sel.Name] = true
					}
				}
			}
			return true
		})
		for _, k := range sortedKeys(want) {
			c.Check(got[k], rule, f.Key+"#registers "+want[k], f.Pos(), m, "independent `if h, ok := h.("+want[k]+"); ok { append }`", "producer.init does not register every hook implementing "+want[k]+" with an independent type assertion: a hook implementing both interfaces is registered for only one of them and its buffered/unbuffered calls no longer pair")
		}
	}
}

// ---------------------------------------------------------------------------
// (2a) fetch side: who may call
// ---------------------------------------------------------------------------

func c14fetchCallers(c *Ctx, m *Module) {
	rule := "fetch-hook-callers"
	funcs := m.FuncsIn("kgo")
	type who struct {
		what    string
		obj     types.Object
		allowed map[string]bool
		floor   int
		why     string
	}
	var tbl []who
	if o := c14ifaceMethod(c, m, "HookFetchRecordBuffered", "OnFetchRecordBuffered"); o != nil {
		tbl = append(tbl, who{"OnFetchRecordBuffered", o, map[string]bool{"kgo.source.hookBuffered": true}, 1, "only hookBuffered pairs the hook with the gauge increment and with a stored fetch"})
	}
	if o := c14ifaceMethod(c, m, "HookFetchRecordUnbuffered", "OnFetchRecordUnbuffered"); o != nil {
		tbl = append(tbl, who{"OnFetchRecordUnbuffered", o, map[string]bool{"kgo.source.hookDeferUnbuffered": true}, 1, "only hookDeferUnbuffered pairs the hook with the gauge decrement and with a removed fetch"})
	}
	if f := c.NeedFunc(m, "kgo.source.hookBuffered"); f != nil {
		tbl = append(tbl, who{"hookBuffered", f.Obj, map[string]bool{"kgo.source.fetch": true, "kgo.source.shareFetch": true}, 2, "records are reported buffered only when their fetch is stored for polling"})
	}
	if f := c.NeedFunc(m, "kgo.source.hookDeferUnbuffered"); f != nil {
		tbl = append(tbl, who{"hookDeferUnbuffered", f.Obj, map[string]bool{"kgo.source.takeBufferedFn": true, "kgo.source.takeNBuffered": true, "kgo.sourceShare.takeBuffered": true, "kgo.sourceShare.takeNBuffered": true, "kgo.source.closeShareSession": true}, 6, "records are reported unbuffered only by the functions that remove them from a buffered fetch"})
	}
	if f := c.NeedFunc(m, "kgo.source.takeBufferedFn"); f != nil {
		tbl = append(tbl, who{"takeBufferedFn", f.Obj, map[string]bool{"kgo.source.takeBuffered": true, "kgo.source.discardBuffered": true}, 3, ""})
	}
	if f := c.NeedFunc(m, "kgo.source.discardBuffered"); f != nil {
		tbl = append(tbl, who{"discardBuffered", f.Obj, map[string]bool{"kgo.consumer.stopSession": true}, 1, "stopSession dispatches the deferred hooks asynchronously"})
	}
	for _, key := range []string{"kgo.source.takeBuffered", "kgo.source.takeNBuffered", "kgo.sourceShare.takeBuffered", "kgo.sourceShare.takeNBuffered"} {
		if f := c.NeedFunc(m, key); f != nil {
			short := strings.TrimPrefix(key, "kgo.")
			allowed := map[string]bool{"kgo.Client.PollRecords": true, "kgo.shareConsumer.poll": true}
			if strings.HasSuffix(key, ".takeBuffered") {
				allowed[strings.Replace(key, "takeBuffered", "takeNBuffered", 1)] = true
			}
			tbl = append(tbl, who{short, f.Obj, allowed, 1, "pollers run the deferred hooks after their fill"})
		}
	}
	for _, w := range tbl {
		sites := CallSites(funcs, w.obj)
		for i, site := range sites {
			c.Touch(site.Fn)
			c.Check(w.allowed[site.Fn.Key], rule, fmt.Sprintf("%s: calls %s#%d", site.Fn.Key, w.what, i), site.Node.Pos(), m, "",
				site.Fn.Key+" calls "+w.what+" but is not in the confirmed caller table "+fmt.Sprint(sortedKeys(w.allowed))+": "+w.why)
		}
		c.Floor(rule+"#"+w.what, len(sites), w.floor)
	}
	// polled flags
	if f := c.NeedFunc(m, "kgo.source.discardBuffered"); f != nil {
		tb := m.Func("kgo.source.takeBufferedFn")
		for _, call := range callsTo(f.Decl.Body, f.Info(), tb.Obj, false) {
			v, isC := constBool(f.Info(), call.Args[0])
			c.Check(isC && !v, rule, f.Key+"#polled=false", call.Pos(), m, "", "discardBuffered reports the discarded records as polled")
		}
	}
	if f := c.NeedFunc(m, "kgo.source.takeBuffered"); f != nil {
		tb := m.Func("kgo.source.takeBufferedFn")
		for i, call := range callsTo(f.Decl.Body, f.Info(), tb.Obj, false) {
			v, isC := constBool(f.Info(), call.Args[0])
			c.Check(isC && v, rule, fmt.Sprintf("%s#polled=true#%d", f.Key, i), call.Pos(), m, "", "takeBuffered reports polled records as not polled")
		}
	}
}

// ---------------------------------------------------------------------------
// (2b) stores to the buffered fields
// ---------------------------------------------------------------------------

func c14stores(c *Ctx, m *Module) {
	rule := "fetch-buffered-store"
	funcs := m.FuncsIn("kgo")
	hb := m.Func("kgo.source.hookBuffered")
	hu := m.Func("kgo.source.hookDeferUnbuffered")
	if hb == nil || hu == nil {
		return
	}
	nBuf, nClear := 0, 0
	for _, fld := range []struct{ typ, field string }{{"source", "buffered"}, {"sourceShare", "buffered"}} {
		fv := fieldMust(c, m, fld.typ, fld.field)
		if fv == nil {
			continue
		}
		for _, st := range StoreSites(funcs, fv) {
			c.Touch(st.Fn)
			info := st.Fn.Info()
			cons := st.Fn.Key + ": " + nosp(nodeStr(st.Node))
			if len(cons) > 120 {
				cons = cons[:120]
			}
			if st.Kind == "addr" {
				// b := &s.buffered (takeNBuffered): the partial-take rule covers it
				c.Check(strings.HasSuffix(st.Fn.Key, ".takeNBuffered"), rule, st.Fn.Key+": &"+fld.typ+".buffered", st.Node.Pos(), m, "partial take (fetch-partial-take)", "the address of the buffered fetch is taken outside takeNBuffered: records can be removed without the unbuffered hook")
				continue
			}
			lit, isLit := unparen(st.RHS).(*ast.CompositeLit)
			if st.Kind != "assign" || !isLit {
				c.Undecided(rule, cons, st.Node.Pos(), m, "store to the buffered fetch that is neither a literal nor &field: classify it")
				continue
			}
			as := st.Node.(*ast.AssignStmt)
			g := st.Fn.GraphFor(as)
			l, _ := g.LocOf(as)
			if len(lit.Elts) > 0 {
				// buffering store: fetch: X ... followed by hookBuffered(&X)
				nBuf++
				var fetchExpr ast.Expr
				for _, e := range lit.Elts {
					if kv, ok := e.(*ast.KeyValueExpr); ok && exprStr(kv.Key) == "fetch" {
						fetchExpr = kv.Value
					}
				}
				if fetchExpr == nil {
					c.Fail(rule, st.Fn.Key+": stores "+fld.typ+".buffered#fetch", as.Pos(), m, "buffering store without a fetch: field")
					continue
				}
				// every buffering store also sets doneFetch (the clear rule treats a nil
				// doneFetch as "nothing buffered")
				hasDone := false
				for _, e := range lit.Elts {
					if kv, ok := e.(*ast.KeyValueExpr); ok && exprStr(kv.Key) == "doneFetch" && exprStr(kv.Value) != "nil" {
						hasDone = true
					}
				}
				c.Check(hasDone, rule, st.Fn.Key+": stores "+fld.typ+".buffered#doneFetch", as.Pos(), m, "a buffered fetch always carries its doneFetch token", "a fetch is buffered without a doneFetch token: code that tests doneFetch to see whether something is buffered would drop its records silently")
				want := "&" + nosp(exprStr(fetchExpr))
				_, skip := g.FindPath(l, SearchOpts{
					Stop: func(n ast.Node) bool {
						return containsNode(n, false, func(y ast.Node) bool {
							call, ok := y.(*ast.CallExpr)
							return ok && isCallTo(info, call, hb.Obj) && len(call.Args) == 1 && nosp(exprStr(call.Args[0])) == want
						})
					},
					GoalExit: func(k ExitKind, last ast.Node) bool { return k != ExitPanic },
				})
				c.Check(!skip, rule, st.Fn.Key+": stores "+fld.typ+".buffered#hookBuffered", as.Pos(), m, "followed by hookBuffered("+want+")",
					"a fetch is stored for polling without hookBuffered("+want+") on every path: its records are never reported to OnFetchRecordBuffered / the gauges but are reported unbuffered when taken (gauges go negative)")
				continue
			}
			// clearing store: copy before, deferred unbuffered hook after
			nClear++
			copyName := ""
			if blk := innerBlock(st.Fn.Decl.Body, as); blk != nil {
				for i, s := range blk.List {
					if s != ast.Stmt(as) || i == 0 {
						continue
					}
					if prev, ok := blk.List[i-1].(*ast.AssignStmt); ok && len(prev.Lhs) == 1 && len(prev.Rhs) == 1 && sameField(fieldOfSel(info, prev.Rhs[0]), fv) {
						if id, ok := prev.Lhs[0].(*ast.Ident); ok {
							copyName = id.Name
						}
					}
				}
			}
			consC := st.Fn.Key + ": clears " + fld.typ + ".buffered"
			if copyName == "" {
				c.Fail(rule, consC+"#copy", as.Pos(), m, "the buffered fetch is cleared without first copying it to a local: its records cannot be reported unbuffered")
				continue
			}
			// accepted arguments: &copy.fetch, or &f where f is defined as copy.fetch
			okArg := func(e ast.Expr) bool {
				s := nosp(exprStr(e))
				if s == "&"+copyName+".fetch" {
					return true
				}
				u, ok := unparen(e).(*ast.UnaryExpr)
				if !ok || u.Op != token.AND {
					return false
				}
				id, ok := unparen(u.X).(*ast.Ident)
				if !ok {
					return false
				}
				def := c14defOf(st.Fn, info.Uses[id])
				return def != nil && nosp(exprStr(def)) == copyName+".fetch"
			}
			_, skip := g.FindPath(l, SearchOpts{
				Stop: func(n ast.Node) bool {
					return containsNode(n, false, func(y ast.Node) bool {
						call, ok := y.(*ast.CallExpr)
						return ok && isCallTo(info, call, hu.Obj) && len(call.Args) == 2 && okArg(call.Args[0])
					})
				},
				GoalExit: func(k ExitKind, last ast.Node) bool { return k != ExitPanic },
				// `copy.doneFetch == nil` means nothing was buffered (every buffering
				// store sets doneFetch: checked by the buffering-store rule above), so
				// the edge on which it is nil has no records to report
				EdgeOK: func(from *cfg.Block, k int, to *cfg.Block) bool {
					cond, tag, ok := g.condOf(from)
					if !ok || tag != nil {
						return true
					}
					be, ok := unparen(cond).(*ast.BinaryExpr)
					if !ok || exprStr(be.Y) != "nil" || nosp(exprStr(be.X)) != copyName+".doneFetch" {
						return true
					}
					isNilEdge := (be.Op == token.EQL) == (k == 0)
					return !isNilEdge
				},
			})
			c.Check(!skip, rule, consC, as.Pos(), m, "followed on all paths by hookDeferUnbuffered(&"+copyName+".fetch, ...)",
				"the buffered fetch is cleared (records dropped or handed out) on a path that never passes hookDeferUnbuffered(&"+copyName+".fetch, ...): those records were reported to OnFetchRecordBuffered and counted in BufferedFetchRecords/BufferedFetchBytes when buffered, but are never reported to OnFetchRecordUnbuffered and the gauges never return to zero")
		}
	}
	c.Floor(rule+"#buffering-stores", nBuf, 2)
	c.Floor(rule+"#clearing-stores", nClear, 3)
	// exactly one hookBuffered per buffering function
	for _, key := range []string{"kgo.source.fetch", "kgo.source.shareFetch"} {
		if f := c.NeedFunc(m, key); f != nil {
			n := len(callsTo(f.Decl.Body, f.Info(), hb.Obj, true))
			c.Check(n == 1, rule, key+"#one hookBuffered", f.Pos(), m, "", fmt.Sprintf("%s calls hookBuffered %d times for one stored fetch: records are reported buffered (and counted) more than once", key, n))
		}
	}
	// pause stripping happens after the records were captured for the unbuffered hook
	tb := m.Func("kgo.source.takeBufferedFn")
	for _, w := range []struct {
		key string
		obj types.Object
	}{{"kgo.source.takeBuffered", nil}, {"kgo.sourceShare.takeBuffered", hu.Obj}} {
		f := c.NeedFunc(m, w.key)
		if f == nil || tb == nil {
			continue
		}
		capture := w.obj
		if capture == nil {
			capture = tb.Obj
		}
		info := f.Info()
		g := f.Graph()
		var capLocs []Loc
		for _, call := range callsTo(f.Decl.Body, info, capture, false) {
			if l, ok := g.LocOf(call); ok {
				capLocs = append(capLocs, l)
			}
		}
		nStrip := 0
		ast.Inspect(f.Decl.Body, func(x ast.Node) bool {
			if _, isLit := x.(*ast.FuncLit); isLit {
				return false
			}
			as, ok := x.(*ast.AssignStmt)
			if !ok {
				return true
			}
			for _, lh := range as.Lhs {
				sel, ok := unparen(lh).(*ast.SelectorExpr)
				if !ok || (sel.Sel.Name != "Topics" && sel.Sel.Name != "Partitions") {
					continue
				}
				nStrip++
				l, _ := g.LocOf(as)
				dom := false
				for _, cl := range capLocs {
					if g.Dominates(cl, l) {
						dom = true
					}
				}
				c.Check(dom, rule, fmt.Sprintf("%s#strip %s after capture#%d", w.key, nosp(exprStr(lh)), nStrip), as.Pos(), m, "", "paused topics/partitions are stripped from the taken fetch before its records were captured for the unbuffered hook: stripped records are never reported unbuffered")
			}
			return true
		})
		c.Floor(rule+"#strip-stores:"+w.key, nStrip, 2)
	}
}

// ---------------------------------------------------------------------------
// (2c) partial takes
// ---------------------------------------------------------------------------

func c14partialTake(c *Ctx, m *Module) {
	rule := "fetch-partial-take"
	hu := m.Func("kgo.source.hookDeferUnbuffered")
	if hu == nil {
		return
	}
	for _, key := range []string{"kgo.source.takeNBuffered", "kgo.sourceShare.takeNBuffered"} {
		f := c.NeedFunc(m, key)
		if f == nil {
			continue
		}
		info := f.Info()
		g := f.Graph()
		// advances: X = X[k:]
		nAdv := 0
		ast.Inspect(f.Decl.Body, func(x ast.Node) bool {
			as, ok := x.(*ast.AssignStmt)
			if !ok || len(as.Lhs) != 1 || len(as.Rhs) != 1 || as.Tok != token.ASSIGN {
				return true
			}
			se, ok := unparen(as.Rhs[0]).(*ast.SliceExpr)
			if !ok || se.Low == nil || se.High != nil || nosp(exprStr(se.X)) != nosp(exprStr(as.Lhs[0])) {
				return true
			}
			lhs := nosp(exprStr(as.Lhs[0]))
			var field string
			if sel, ok := unparen(as.Lhs[0]).(*ast.SelectorExpr); ok {
				field = sel.Sel.Name
			}
			if field != "Topics" && field != "Partitions" && field != "Records" {
				return true
			}
			nAdv++
			cons := fmt.Sprintf("%s: %s advance#%d", key, lhs, nAdv)
			l, _ := g.LocOf(as)
			blk := innerBlock(f.Decl.Body, as)
			// statements before the advance in the same block
			var before []ast.Stmt
			if blk != nil {
				for i, s := range blk.List {
					if s == ast.Stmt(as) {
						before = blk.List[:i]
					}
				}
			}
			hasBefore := func(pred func(s ast.Stmt) bool) bool {
				for _, s := range before {
					if pred(s) {
						return true
					}
				}
				return false
			}
			emptied := func(what string) bool {
				return factMatches(g.FactsAt(l), func(ft Fact) bool { return ft.Val && nosp(exprStr(ft.Cond)) == "len("+what+")==0" })
			}
			switch field {
			case "Records":
				// rp.Records = p.Records[:take:take] immediately before p.Records = p.Records[take:]
				low := nosp(exprStr(se.Low))
				ok := len(before) > 0 && nosp(nodeStr(before[len(before)-1])) == "rp.Records="+lhs+"[:"+low+":"+low+"]"
				c.Check(ok, rule, cons, as.Pos(), m, "the removed prefix is handed to the returned partition", "records are cut off the buffered partition ("+nosp(nodeStr(as))+") without `rp.Records = "+lhs+"[:"+low+":"+low+"]` right before: the removed records are in neither returned fetch and are never reported unbuffered (or a different number is reported than removed)")
			case "Partitions":
				ok := emptied("p.Records") || hasBefore(func(s ast.Stmt) bool {
					return nosp(nodeStr(s)) == "rtstrip.Partitions=append(rtstrip.Partitions,*p)"
				})
				c.Check(ok, rule, cons, as.Pos(), m, "an emptied partition, or the partition was appended to the stripped fetch", "a partition is dropped from the buffered fetch while it still holds records and without appending it to the stripped fetch: its records are never reported unbuffered")
			case "Topics":
				ok := emptied("t.Partitions") || hasBefore(func(s ast.Stmt) bool {
					return nosp(nodeStr(s)) == "rstrip.Topics=append(rstrip.Topics,*t)"
				})
				c.Check(ok, rule, cons, as.Pos(), m, "an emptied topic, or the topic was appended to the stripped fetch", "a topic is dropped from the buffered fetch while it still holds partitions and without appending it to the stripped fetch: its records are never reported unbuffered")
			}
			return true
		})
		c.Floor(rule+"#advances:"+key, nAdv, 5)
		// the returned partition view points into r
		got := map[string]bool{}
		ast.Inspect(f.Decl.Body, func(x ast.Node) bool {
			if s, ok := x.(ast.Stmt); ok {
				got[nosp(nodeStr(s))] = true
			}
			return true
		})
		var missing []string
		for _, w := range []string{"rt.Partitions=append(rt.Partitions,*p)", "rp:=&rt.Partitions[len(rt.Partitions)-1]", "r.Topics=append(r.Topics,*t)", "rt=&r.Topics[len(r.Topics)-1]", "rstrip.Topics=append(rstrip.Topics,*t)", "rtstrip=&rstrip.Topics[len(rstrip.Topics)-1]", "rt.Partitions=nil", "rtstrip.Partitions=nil"} {
			if !got[w] {
				missing = append(missing, w)
			}
		}
		c.Check(len(missing) == 0, rule, key+"#views", f.Pos(), m, "rp/rt alias the returned fetch r, rtstrip the stripped fetch", "the partial take no longer builds the returned/stripped fetch views: "+strings.Join(missing, "; "))
		// both fetches reach the hook on every path
		for _, arg := range []string{"&r", "&rstrip"} {
			_, skip := g.FindPath(Loc{-1, 0}, SearchOpts{
				Stop: func(n ast.Node) bool {
					return containsNode(n, false, func(y ast.Node) bool {
						call, ok := y.(*ast.CallExpr)
						if !ok || !isCallTo(info, call, hu.Obj) || len(call.Args) != 2 || nosp(exprStr(call.Args[0])) != arg {
							return false
						}
						v, isC := constBool(info, call.Args[1])
						return isC && v
					})
				},
				GoalExit: func(k ExitKind, last ast.Node) bool { return k != ExitPanic },
				EdgeOK: func(from *cfg.Block, k int, to *cfg.Block) bool {
					// the empty stripped fetch needs no hook
					if cond, _, ok := g.condOf(from); ok && k == 1 && arg == "&rstrip" && nosp(exprStr(cond)) == "len(rstrip.Topics)>0" {
						return false
					}
					return true
				},
			})
			c.Check(!skip, rule, key+"#hookDeferUnbuffered("+arg+", true)", f.Pos(), m, "", "the partial take can return without hookDeferUnbuffered("+arg+", true): the records it removed from the buffered fetch are never reported unbuffered")
		}
		// the hook calls are guarded by nothing else
		loopConds := c14loopConds(f)
		for i, call := range callsTo(f.Decl.Body, info, hu.Obj, false) {
			l, _ := g.LocOf(call)
			var extra []string
			for _, ft := range g.FactsAt(l) {
				if !ft.Val && loopConds[unparen(ft.Cond)] {
					continue // after a finished loop
				}
				s := nosp(exprStr(ft.Cond))
				if s == "len(rstrip.Topics)>0" && ft.Val && nosp(exprStr(call.Args[0])) == "&rstrip" {
					continue
				}
				extra = append(extra, s)
			}
			c.Check(len(extra) == 0, rule, fmt.Sprintf("%s#hook call %d unconditional", key, i), call.Pos(), m, "", "the unbuffered hook of the partial take is conditional on "+strings.Join(extra, ", "))
		}
	}
}

// ---------------------------------------------------------------------------
// (2d) capture analysis of the deferred dispatch
// ---------------------------------------------------------------------------

// c14aliasesFetch reports whether values of type t share memory with a Fetch's
// topic/partition arrays (pointer to / slice of / struct Fetch, FetchTopic, FetchPartition).
func c14aliasesFetch(t types.Type, depth int) bool {
	if depth > 6 || t == nil {
		return false
	}
	switch x := t.(type) {
	case *types.Pointer:
		return c14aliasesFetch(x.Elem(), depth+1)
	case *types.Slice:
		return c14aliasesFetch(x.Elem(), depth+1)
	case *types.Array:
		return c14aliasesFetch(x.Elem(), depth+1)
	case *types.Named:
		switch x.Obj().Name() {
		case "Fetch", "FetchTopic", "FetchPartition", "Fetches", "bufferedFetch", "shareBufferedFetch":
			return x.Obj().Pkg() != nil && x.Obj().Pkg().Name() == "kgo"
		}
		return false
	case *types.Alias:
		return c14aliasesFetch(types.Unalias(x), depth+1)
	}
	return false
}

func c14capture(c *Ctx, m *Module) {
	rule := "fetch-unbuffered-capture"
	f := c.NeedFunc(m, "kgo.source.hookDeferUnbuffered")
	dfh := fieldMust(c, m, "consumer", "deferredFetchHooks")
	unbM := m.Method("kgo", "HookFetchRecordUnbuffered", "OnFetchRecordUnbuffered")
	if f == nil || dfh == nil || unbM == nil {
		return
	}
	info := f.Info()
	polledObj := c14paramObj(f, 1)
	nLit := 0
	queued := map[*ast.FuncLit]bool{}
	for _, st := range storesTo(f.Decl.Body, info, dfh, false) {
		if ap, ok := unparen(st.RHS).(*ast.CallExpr); ok && len(ap.Args) == 2 {
			if lit, ok := unparen(ap.Args[1]).(*ast.FuncLit); ok {
				queued[lit] = true
			}
		}
	}
	for i, call := range callsTo(f.Decl.Body, info, unbM, true) {
		lit := innermostLit(f, call)
		for lit != nil && !queued[lit] {
			lit = innermostLit(f, lit)
		}
		c.Check(lit != nil, rule, fmt.Sprintf("%s#hook call %d is deferred", f.Key, i), call.Pos(), m, "inside the closure appended to consumer.deferredFetchHooks", "OnFetchRecordUnbuffered is called outside the closure queued on consumer.deferredFetchHooks: it runs with c.sourcesReadyMu (and c.mu) held, so a hook that re-enters the client deadlocks every poll, rebalance and Close")
	}
	for _, st := range storesTo(f.Decl.Body, info, dfh, false) {
		ap, ok := unparen(st.RHS).(*ast.CallExpr)
		if !ok || len(ap.Args) != 2 {
			c.Fail(rule, f.Key+"#queue", st.Node.Pos(), m, "deferredFetchHooks is not extended with append(c.deferredFetchHooks, func(){...})")
			continue
		}
		lit, ok := unparen(ap.Args[1]).(*ast.FuncLit)
		if !ok {
			c.Fail(rule, f.Key+"#queue", st.Node.Pos(), m, "the queued dispatch is not a function literal")
			continue
		}
		nLit++
		// captured variables
		captured := map[types.Object]*ast.Ident{}
		ast.Inspect(lit.Body, func(x ast.Node) bool {
			id, ok := x.(*ast.Ident)
			if !ok {
				return true
			}
			v, ok := info.Uses[id].(*types.Var)
			if !ok || v.IsField() || v.Pkg() == nil || v.Parent() == v.Pkg().Scope() {
				return true
			}
			if v.Pos() >= lit.Pos() && v.Pos() <= lit.End() {
				return true
			}
			if _, dup := captured[v]; !dup {
				captured[v] = id
			}
			return true
		})
		var names []string
		var recsObj types.Object
		for o, id := range captured {
			names = append(names, o.Name())
			if c14aliasesFetch(o.Type(), 0) {
				c.Fail(rule, f.Key+"#closure captures "+o.Name(), id.Pos(), m, "the deferred OnFetchRecordUnbuffered dispatch captures `"+o.Name()+"` of type "+o.Type().String()+", which shares the fetch's Topics/Partitions backing arrays: the callers (takeBuffered pause stripping, share takeBuffered) compact those arrays in place after hookDeferUnbuffered returns and before the dispatch runs, so records of stripped partitions are never reported unbuffered and others are reported twice")
			}
			if sl, ok := o.Type().(*types.Slice); ok {
				if p, ok := sl.Elem().(*types.Pointer); ok {
					if nmd, ok := p.Elem().(*types.Named); ok && nmd.Obj().Name() == "Record" {
						recsObj = o
					}
				}
			}
		}
		sort.Strings(names)
		c.Check(recsObj != nil, rule, f.Key+"#closure captures the flattened records", lit.Pos(), m, "captures "+strings.Join(names, ", "), "the deferred dispatch does not capture a flattened []*Record (captures: "+strings.Join(names, ", ")+")")
		if recsObj == nil {
			continue
		}
		// recs is only ever extended with record pointers of the walked fetch
		okApp := true
		nApp := 0
		for _, e := range assignsTo(f, recsObj) {
			ap, ok := unparen(e).(*ast.CallExpr)
			if !ok || len(ap.Args) != 2 || !c14isIdentOf(info, ap.Args[0], recsObj) {
				okApp = false
				continue
			}
			if b, ok := calleeObj(info, ap).(*types.Builtin); !ok || b.Name() != "append" {
				okApp = false
			}
			nApp++
		}
		c.Check(okApp && nApp >= 1, rule, f.Key+"#records flattened by append", lit.Pos(), m, "", "the captured record slice is not built only by append(recs, r) in the walk")
		// the append is inside the innermost record loop of the walk: p.Records[k]
		inWalk := false
		ast.Inspect(f.Decl.Body, func(x ast.Node) bool {
			rs, ok := x.(*ast.RangeStmt)
			if !ok || nosp(exprStr(rs.X)) != "p.Records" {
				return true
			}
			if containsNode(rs.Body, false, func(y ast.Node) bool {
				as, ok := y.(*ast.AssignStmt)
				return ok && len(as.Lhs) == 1 && c14isIdentOf(info, as.Lhs[0], recsObj)
			}) {
				inWalk = true
			}
			return true
		})
		c.Check(inWalk, rule, f.Key+"#every walked record is captured", lit.Pos(), m, "", "the record capture is not inside the `range p.Records` loop of the walk: not every removed record is dispatched")
		// the closure calls the hook for every record and hook with the polled flag
		okCall := false
		ast.Inspect(lit.Body, func(x ast.Node) bool {
			call, ok := x.(*ast.CallExpr)
			if !ok || !isCallTo(info, call, unbM) || len(call.Args) != 2 {
				return true
			}
			// inside range recs and range over the hook slice
			parents := parentMap(lit.Body)
			overRecs, overHooks := false, false
			var recVar types.Object
			for p := parents[call]; p != nil; p = parents[p] {
				if rs, ok := p.(*ast.RangeStmt); ok {
					if c14isIdentOf(info, rs.X, recsObj) {
						overRecs = true
						if vid, ok := rs.Value.(*ast.Ident); ok {
							recVar = info.Defs[vid]
						}
					} else if tv, ok := info.Types[rs.X]; ok && strings.Contains(tv.Type.String(), "HookFetchRecordUnbuffered") {
						overHooks = true
					}
				}
			}
			if overRecs && overHooks && c14isIdentOf(info, call.Args[0], recVar) && c14isIdentOf(info, call.Args[1], polledObj) {
				okCall = true
			}
			return true
		})
		c.Check(okCall, rule, f.Key+"#dispatch calls the hook per record", lit.Pos(), m, "", "the deferred dispatch does not call OnFetchRecordUnbuffered(r, polled) for every captured record and every registered hook")
		// no early exit between the gauge update and the queueing other than `len(recs) == 0`
		g := f.Graph()
		l, _ := g.LocOf(st.Node)
		var extra []string
		for _, ft := range g.FactsAt(l) {
			s := nosp(exprStr(ft.Cond))
			if (s == "len("+recsObj.Name()+")==0" && !ft.Val) || (s == "len(unbH)==0" && !ft.Val) {
				continue
			}
			extra = append(extra, s)
		}
		c.Check(len(extra) == 0, rule, f.Key+"#queueing unconditional", st.Node.Pos(), m, "", "the dispatch is queued only under "+strings.Join(extra, ", "))
	}
	c.Floor(rule, nLit, 1)
}

// ---------------------------------------------------------------------------
// (2e) gauges
// ---------------------------------------------------------------------------

func c14gauges(c *Ctx, m *Module) {
	rule := "fetch-gauges"
	funcs := m.FuncsIn("kgo")
	recF := fieldMust(c, m, "consumer", "bufferedRecords")
	bytF := fieldMust(c, m, "consumer", "bufferedBytes")
	if recF == nil || bytF == nil {
		return
	}
	wantArg := map[string]map[string]string{
		"kgo.source.hookBuffered":        {"bufferedRecords": "int64(nrecs)", "bufferedBytes": "nbytes"},
		"kgo.source.hookDeferUnbuffered": {"bufferedRecords": "-int64(nrecs)", "bufferedBytes": "-nbytes"},
	}
	n := 0
	for _, fv := range []*types.Var{recF, bytF} {
		for _, st := range StoreSites(funcs, fv) {
			n++
			want, okFn := wantArg[st.Fn.Key]
			ok := okFn && st.Kind == "atomic:Add" && nosp(exprStr(st.RHS)) == want[fv.Name()]
			c.Check(ok, rule, fmt.Sprintf("%s: %s.%s#%d", st.Fn.Key, fv.Name(), st.Kind, n), st.Node.Pos(), m, "", "consumer."+fv.Name()+" is written by `"+nosp(nodeStr(st.Node))+"` in "+st.Fn.Key+": only hookBuffered may add int64(nrecs)/nbytes and hookDeferUnbuffered subtract the same; BufferedFetchRecords/BufferedFetchBytes no longer return to zero")
		}
	}
	c.Floor(rule+"#writes", n, 6)
	// every exit has passed both Adds; the walks agree
	var walks []string
	for _, key := range []string{"kgo.source.hookBuffered", "kgo.source.hookDeferUnbuffered"} {
		f := c.NeedFunc(m, key)
		if f == nil {
			continue
		}
		info := f.Info()
		g := f.Graph()
		for _, fv := range []*types.Var{recF, bytF} {
			fv := fv
			_, skip := g.FindPath(Loc{-1, 0}, SearchOpts{
				Stop: func(nd ast.Node) bool { return len(storesTo(nd, info, fv, false)) > 0 },
				GoalExit: func(k ExitKind, last ast.Node) bool {
					return k != ExitPanic
				},
			})
			c.Check(!skip, rule, key+"#every exit updates "+fv.Name(), f.Pos(), m, "", key+" can return without updating consumer."+fv.Name()+": the gauge drifts from the hook calls")
			// the Add is not inside a loop and is guarded only by the arm selector
			for _, st := range storesTo(f.Decl.Body, info, fv, false) {
				l, _ := g.LocOf(st.Node)
				var extra []string
				for _, ft := range g.FactsAt(l) {
					s := nosp(exprStr(ft.Cond))
					if s == "len(unbH)==0" {
						continue
					}
					extra = append(extra, s)
				}
				inLoop := false
				parents := parentMap(f.Decl.Body)
				for p := parents[st.Node]; p != nil; p = parents[p] {
					switch p.(type) {
					case *ast.RangeStmt, *ast.ForStmt:
						inLoop = true
					}
				}
				c.Check(len(extra) == 0 && !inLoop, rule, key+"#"+fv.Name()+" updated once per call", st.Node.Pos(), m, "", "the gauge update is conditional ("+strings.Join(extra, ", ")+") or inside a loop")
			}
		}
		// walks: every outermost `range f.Topics` statement
		ast.Inspect(f.Decl.Body, func(x ast.Node) bool {
			rs, ok := x.(*ast.RangeStmt)
			if !ok || nosp(exprStr(rs.X)) != "f.Topics" {
				return true
			}
			walks = append(walks, key+"|"+c14walkSig(f, rs))
			return false
		})
	}
	c.Floor(rule+"#walks", len(walks), 3)
	want := "range f.Topics{range t.Partitions{nrecs+=len(p.Records);range p.Records{nbytes+=p.Records[k].userSize()}}}"
	for i, w := range walks {
		parts := strings.SplitN(w, "|", 2)
		c.Check(parts[1] == want, rule, fmt.Sprintf("%s#walk%d accumulates nrecs/nbytes", parts[0], i), 0, m, want, "the gauge walk accumulates `"+parts[1]+"` instead of `"+want+"`: the amounts added when buffering and subtracted when unbuffering disagree, so BufferedFetchRecords/BufferedFetchBytes do not return to zero")
	}
}

// c14walkSig normalises the accumulation structure of a walk over a fetch.
func c14walkSig(f *Func, rs *ast.RangeStmt) string {
	info := f.Info()
	var sig func(n ast.Node) string
	sig = func(n ast.Node) string {
		var parts []string
		var body *ast.BlockStmt
		switch s := n.(type) {
		case *ast.RangeStmt:
			body = s.Body
		case *ast.BlockStmt:
			body = s
		}
		if body == nil {
			return ""
		}
		// local aliases: r := p.Records[k]
		alias := map[types.Object]string{}
		for _, st := range body.List {
			if as, ok := st.(*ast.AssignStmt); ok && as.Tok == token.DEFINE && len(as.Lhs) == 1 && len(as.Rhs) == 1 {
				if id, ok := as.Lhs[0].(*ast.Ident); ok {
					alias[info.Defs[id]] = nosp(exprStr(as.Rhs[0]))
				}
			}
		}
		for _, st := range body.List {
			switch s := st.(type) {
			case *ast.AssignStmt:
				if s.Tok == token.ADD_ASSIGN && len(s.Lhs) == 1 {
					if id, ok := s.Lhs[0].(*ast.Ident); ok && (id.Name == "nrecs" || id.Name == "nbytes") {
						rhs := nosp(exprStr(s.Rhs[0]))
						// substitute aliases
						if call, ok := unparen(s.Rhs[0]).(*ast.CallExpr); ok {
							if sel, ok := unparen(call.Fun).(*ast.SelectorExpr); ok {
								if rid, ok := unparen(sel.X).(*ast.Ident); ok {
									if a, ok := alias[info.Uses[rid]]; ok {
										rhs = a + "." + sel.Sel.Name + "()"
									}
								}
							}
						}
						parts = append(parts, id.Name+"+="+rhs)
					}
				}
			case *ast.RangeStmt:
				inner := sig(s)
				isFetchLevel := false
				if sel, ok := unparen(s.X).(*ast.SelectorExpr); ok {
					switch sel.Sel.Name {
					case "Topics", "Partitions", "Records":
						isFetchLevel = true
					}
				}
				if isFetchLevel {
					parts = append(parts, "range "+nosp(exprStr(s.X))+"{"+inner+"}")
				} else if inner != "" {
					parts = append(parts, "range "+nosp(exprStr(s.X))+"{"+inner+"}")
				}
			case *ast.IfStmt, *ast.ForStmt, *ast.SwitchStmt:
				parts = append(parts, "?"+nosp(nodeStr(s)))
				if ifs, ok := s.(*ast.IfStmt); ok {
					parts = append(parts, "if{"+sig(ifs.Body)+"}")
				}
			}
		}
		return strings.Join(parts, ";")
	}
	return "range " + nosp(exprStr(rs.X)) + "{" + sig(rs) + "}"
}

// ---------------------------------------------------------------------------
// (3) dispatch of the deferred hooks
// ---------------------------------------------------------------------------

func c14dispatch(c *Ctx, m *Module) {
	rule := "fetch-deferred-dispatch"
	funcs := m.FuncsIn("kgo")
	dfh := fieldMust(c, m, "consumer", "deferredFetchHooks")
	run := c.NeedFunc(m, "kgo.consumer.runDeferredFetchHooks")
	if dfh == nil || run == nil {
		return
	}
	// writers of the queue
	nSwap := 0
	for _, st := range StoreSites(funcs, dfh) {
		c.Touch(st.Fn)
		info := st.Fn.Info()
		cons := st.Fn.Key + ": " + nosp(nodeStr(st.Node))
		if len(cons) > 100 {
			cons = cons[:100]
		}
		switch {
		case st.Fn.Key == "kgo.source.hookDeferUnbuffered":
			ap, ok := unparen(st.RHS).(*ast.CallExpr)
			okApp := ok && len(ap.Args) == 2 && sameField(fieldOfSel(info, ap.Args[0]), dfh)
			c.Check(okApp, rule, st.Fn.Key+": queues a dispatch", st.Node.Pos(), m, "", "hookDeferUnbuffered does not append to the queue (it overwrites queued dispatches of earlier takes)")
		case st.Fn.Key == "kgo.consumer.runDeferredFetchHooks" || st.Fn.Key == "kgo.consumer.stopSession":
			nSwap++
			okNil := st.Kind == "assign" && c13isNil(st.RHS)
			// copied to a local right before (statement before or if-init), under sourcesReadyMu
			as := st.Node.(*ast.AssignStmt)
			var local types.Object
			ast.Inspect(st.Fn.Decl.Body, func(x ast.Node) bool {
				a2, ok := x.(*ast.AssignStmt)
				if !ok || a2 == as || len(a2.Lhs) != 1 || len(a2.Rhs) != 1 || a2.Pos() > as.Pos() {
					return true
				}
				if sameField(fieldOfSel(info, a2.Rhs[0]), dfh) {
					if id, ok := a2.Lhs[0].(*ast.Ident); ok {
						local = info.Defs[id]
					}
				}
				return true
			})
			env := newLockEnv(st.Fn, nil, nil)
			held, okH := env.HeldAtNode(as)
			okLock := okH && held.Holds("c.sourcesReadyMu", true)
			// every element of the local is called
			okRun := false
			ast.Inspect(st.Fn.Decl.Body, func(x ast.Node) bool {
				rs, ok := x.(*ast.RangeStmt)
				if !ok || local == nil || !c14isIdentOf(info, rs.X, local) || rs.Pos() < as.Pos() {
					return true
				}
				vid, _ := rs.Value.(*ast.Ident)
				if vid != nil && containsNode(rs.Body, false, func(y ast.Node) bool {
					call, ok := y.(*ast.CallExpr)
					return ok && len(call.Args) == 0 && c14isIdentOf(info, call.Fun, info.Defs[vid])
				}) {
					okRun = true
				}
				return true
			})
			c.Check(okNil && local != nil && okLock && okRun, rule, st.Fn.Key+": swaps the queue and runs it", st.Node.Pos(), m, "copied to a local under sourcesReadyMu, set to nil, every element called",
				"the deferred-hook queue is cleared in "+st.Fn.Key+" without copying it to a local under sourcesReadyMu and calling every element: queued OnFetchRecordUnbuffered dispatches are lost (records buffered but never unbuffered) or run twice")
		default:
			c.Fail(rule, cons, st.Node.Pos(), m, "consumer.deferredFetchHooks is written outside hookDeferUnbuffered / runDeferredFetchHooks / stopSession: a queued unbuffered dispatch can be dropped")
		}
	}
	c.Floor(rule+"#swaps", nSwap, 2)

	// pollers: every call of a fill closure that takes is followed by runDeferredFetchHooks
	takeKeys := map[string]bool{"kgo.source.takeBuffered": true, "kgo.source.takeNBuffered": true, "kgo.sourceShare.takeBuffered": true, "kgo.sourceShare.takeNBuffered": true}
	nFill := 0
	for _, key := range []string{"kgo.Client.PollRecords", "kgo.shareConsumer.poll"} {
		f := c.NeedFunc(m, key)
		if f == nil {
			continue
		}
		info := f.Info()
		// closures that take
		takers := map[types.Object]bool{}
		ast.Inspect(f.Decl.Body, func(x ast.Node) bool {
			as, ok := x.(*ast.AssignStmt)
			if !ok || len(as.Lhs) != 1 || len(as.Rhs) != 1 {
				return true
			}
			lit, ok := unparen(as.Rhs[0]).(*ast.FuncLit)
			if !ok {
				return true
			}
			if containsNode(lit.Body, true, func(y ast.Node) bool {
				call, ok := y.(*ast.CallExpr)
				return ok && takeKeys[c13callKey(info, call)]
			}) {
				if id, ok := as.Lhs[0].(*ast.Ident); ok {
					takers[info.Defs[id]] = true
				}
			}
			return true
		})
		// direct take calls outside closures are not expected
		ast.Inspect(f.Decl.Body, func(x ast.Node) bool {
			call, ok := x.(*ast.CallExpr)
			if !ok {
				return true
			}
			if takeKeys[c13callKey(info, call)] && innermostLit(f, call) == nil {
				c.Undecided(rule, key+"#direct take", call.Pos(), m, "a take function is called directly in the poller body: extend the rule")
			}
			id, ok := unparen(call.Fun).(*ast.Ident)
			if !ok || !takers[info.Uses[id]] {
				return true
			}
			nFill++
			g := f.GraphFor(call)
			l, okL := g.LocOf(call)
			if !okL {
				c.Undecided(rule, fmt.Sprintf("%s#fill call %d", key, nFill), call.Pos(), m, "cannot locate the fill call")
				return true
			}
			_, skip := g.FindPath(l, SearchOpts{
				Stop: func(n ast.Node) bool {
					return containsNode(n, false, func(y ast.Node) bool {
						c2, ok := y.(*ast.CallExpr)
						return ok && isCallTo(info, c2, run.Obj)
					})
				},
				GoalExit: func(k ExitKind, last ast.Node) bool { return k != ExitPanic },
			})
			c.Check(!skip, rule, fmt.Sprintf("%s#fill call %d followed by runDeferredFetchHooks", key, nFill), call.Pos(), m, "", "a poll path takes buffered records (queueing their unbuffered dispatch) and can return without runDeferredFetchHooks(): OnFetchRecordUnbuffered for the polled records does not fire before the poll returns (or never, if no later poll happens)")
			return true
		})
	}
	c.Floor(rule+"#fill-calls", nFill, 4)

	// stopSession: every discard is followed by the asynchronous dispatch
	if f := c.NeedFunc(m, "kgo.consumer.stopSession"); f != nil {
		info := f.Info()
		g := f.Graph()
		db := m.Func("kgo.source.discardBuffered")
		n := 0
		if db != nil {
			for _, call := range callsTo(f.Decl.Body, info, db.Obj, false) {
				n++
				l, _ := g.LocOf(call)
				_, skip := g.FindPath(l, SearchOpts{
					Stop: func(nd ast.Node) bool {
						// the read of the queue into a local
						return len(readsOf(nd, info, dfh, false)) > 0
					},
					GoalExit: func(k ExitKind, last ast.Node) bool { return k != ExitPanic },
				})
				c.Check(!skip, rule, f.Key+"#discard followed by dispatch", call.Pos(), m, "", "stopSession discards buffered fetches and can return without dispatching the queued unbuffered hooks")
			}
		}
		c.Floor(rule+"#discards", n, 1)
		// the dispatch runs in a goroutine (callers hold c.mu)
		okGo := false
		ast.Inspect(f.Decl.Body, func(x ast.Node) bool {
			gs, ok := x.(*ast.GoStmt)
			if !ok {
				return true
			}
			if lit, ok := unparen(gs.Call.Fun).(*ast.FuncLit); ok && containsNode(lit.Body, false, func(y ast.Node) bool {
				rs, ok := y.(*ast.RangeStmt)
				return ok && nosp(exprStr(rs.X)) == "fns"
			}) {
				okGo = true
			}
			return true
		})
		c.Check(okGo, rule, f.Key+"#dispatch is asynchronous", f.Pos(), m, "", "stopSession does not dispatch the deferred hooks in a goroutine: its callers hold c.mu, a re-entrant hook deadlocks")
	}
}

// ---------------------------------------------------------------------------
// (1b) produce side: bufferRecord's "processed" result
// ---------------------------------------------------------------------------

// c14rebuffer: Client.doPartition offers a record to recBuf.bufferRecord and,
// when told "not processed" (false), offers the same record again. Every
// offer that fails the record (promiseRecord) or appends it ends in exactly
// one finishRecordPromise, i.e. one OnProduceRecordUnbuffered + one promise.
// So bufferRecord may answer false only on a path where nothing was done with
// the record (tryBuffer's aborted result), must answer false there (else the
// record is dropped: buffered hook without unbuffered hook), and must answer
// true on every path that failed or appended the record (else the record is
// finished twice for one OnProduceRecordBuffered).  The value of a
// non-constant return expression is evaluated three-valued under the branch
// facts that hold at the return.
func c14rebuffer(c *Ctx, m *Module) {
	rule := "produce-rebuffer-once"
	f := c.NeedFunc(m, "kgo.recBuf.bufferRecord")
	tb := c.NeedFunc(m, "kgo.recBatch.tryBuffer")
	prom := m.Method("kgo", "producer", "promiseRecord")
	if f == nil || tb == nil || prom == nil {
		return
	}
	info := f.Info()
	g := f.Graph()
	// result variables of the tryBuffer calls
	appendedObjs := map[types.Object]bool{}
	abortedObjs := map[types.Object]bool{}
	nTry := 0
	ast.Inspect(f.Decl.Body, func(x ast.Node) bool {
		as, ok := x.(*ast.AssignStmt)
		if !ok || len(as.Rhs) != 1 || len(as.Lhs) != 2 {
			return true
		}
		call, ok := unparen(as.Rhs[0]).(*ast.CallExpr)
		if !ok || !isCallTo(info, call, tb.Obj) {
			return true
		}
		nTry++
		for i, set := range []map[types.Object]bool{appendedObjs, abortedObjs} {
			if id, ok := as.Lhs[i].(*ast.Ident); ok && id.Name != "_" {
				if o := info.Defs[id]; o != nil {
					set[o] = true
				} else if o := info.Uses[id]; o != nil {
					set[o] = true
				}
			}
		}
		return true
	})
	c.Floor(rule+"#tryBuffer-results", nTry, 2)
	promCalls := callsTo(f.Decl.Body, info, prom, false)
	identIn := func(e ast.Expr, set map[types.Object]bool) bool {
		id, ok := unparen(e).(*ast.Ident)
		return ok && set[info.Uses[id]]
	}
	nRet := 0
	for _, rn := range findNodes(f.Decl.Body, false, func(x ast.Node) bool { _, ok := x.(*ast.ReturnStmt); return ok }) {
		r := rn.(*ast.ReturnStmt)
		if len(r.Results) != 1 {
			continue
		}
		nRet++
		l, ok := g.LocOf(r)
		if !ok {
			continue
		}
		facts := g.FactsAt(l)
		env := &triEnv{f: f, atom: func(e ast.Expr) (tri, bool) {
			s := nosp(exprStr(e))
			for _, ft := range facts {
				if ft.Tag == nil && nosp(exprStr(ft.Cond)) == s {
					if ft.Val {
						return triT, true
					}
					return triF, true
				}
			}
			return triU, false
		}}
		v := env.eval(r.Results[0])
		promised := false
		for _, pc := range promCalls {
			if pl, ok := g.LocOf(pc); ok && g.reachFwd(pl, l) {
				promised = true
			}
		}
		abortedHere := factMatches(facts, func(ft Fact) bool { return ft.Val && identIn(ft.Cond, abortedObjs) })
		appendedHere := factMatches(facts, func(ft Fact) bool { return ft.Val && identIn(ft.Cond, appendedObjs) })
		cons := fmt.Sprintf("%s#return%d", f.Key, nRet)
		val := map[tri]string{triT: "true", triF: "false", triU: "not provably true or false"}[v]
		switch {
		case promised || appendedHere:
			what := "failed with promiseRecord"
			if !promised {
				what = "appended to a batch"
			}
			c.Check(v == triT, rule, cons+" after the record was finished or appended", r.Pos(), m, "returns true",
				"bufferRecord returns `"+exprStr(r.Results[0])+"` ("+val+" under the facts of this path) on a path where the record was already "+what+": doPartition treats false as `not processed`, asks the partitioner for a new partition and buffers the record again, so it is failed/produced a second time - OnProduceRecordUnbuffered and the promise run twice for one OnProduceRecordBuffered and the buffered counters are decremented twice")
		case abortedHere:
			c.Check(v == triF, rule, cons+" on the aborted new batch", r.Pos(), m, "returns false",
				"bufferRecord returns `"+exprStr(r.Results[0])+"` ("+val+") although tryBuffer aborted without touching the record: the record is neither buffered nor failed nor re-offered, so it was reported to OnProduceRecordBuffered but is never reported unbuffered and its promise never runs")
		default:
			c.Check(v == triT, rule, cons, r.Pos(), m, "returns true",
				"bufferRecord returns `"+exprStr(r.Results[0])+"` ("+val+") on a path that is not the aborted-new-batch arm: only that arm leaves the record untouched; answering `not processed` elsewhere makes doPartition buffer the record a second time")
		}
	}
	c.Floor(rule+"#returns", nRet, 5)
	// the abort flag reaches only the new-batch attempt, and only doPartition's first offer may set it
	abortParam := c14paramObj(f, 1)
	nFlag := 0
	for _, call := range callsTo(f.Decl.Body, info, tb.Obj, false) {
		if len(call.Args) != 4 {
			continue
		}
		if c14isIdentOf(info, call.Args[3], abortParam) {
			nFlag++
			continue
		}
		v, isC := constBool(info, call.Args[3])
		c.Check(isC && !v, rule, f.Key+"#existing batch never aborts", call.Pos(), m, "", "a tryBuffer call other than the new-batch attempt can abort")
	}
	c.Check(nFlag == 1, rule, f.Key+"#abort flag passed to one tryBuffer", f.Pos(), m, "", fmt.Sprintf("abortOnNewBatch is passed to %d tryBuffer calls (one confirmed)", nFlag))
	// callers: doPartition only; the re-offer is under !processed, cannot abort, and happens once
	dp := c.NeedFunc(m, "kgo.Client.doPartition")
	if dp == nil {
		return
	}
	sites := CallSites(m.FuncsIn("kgo"), f.Obj)
	var first, second *ast.CallExpr
	for _, site := range sites {
		call := site.Node.(*ast.CallExpr)
		if site.Fn.Key != dp.Key || site.Lit != nil {
			c.Fail(rule, site.Fn.Key+": calls bufferRecord", call.Pos(), m, "bufferRecord is called outside doPartition: its `not processed` answer is only handled there")
			continue
		}
		if v, isC := constBool(dp.Info(), call.Args[1]); isC && !v {
			second = call
		} else {
			first = call
		}
	}
	c.Check(len(sites) == 2 && first != nil && second != nil, rule, dp.Key+"#offers", dp.Pos(), m, "one offer that may abort, one re-offer that may not", fmt.Sprintf("doPartition offers the record to bufferRecord %d times (two confirmed: one with the partitioner's abort flag, one re-offer with false)", len(sites)))
	if first != nil && second != nil {
		dg := dp.Graph()
		dinfo := dp.Info()
		// processed := first(...)
		var procObj types.Object
		ast.Inspect(dp.Decl.Body, func(x ast.Node) bool {
			as, ok := x.(*ast.AssignStmt)
			if ok && len(as.Lhs) == 1 && len(as.Rhs) == 1 && unparen(as.Rhs[0]) == ast.Expr(first) {
				if id, ok := as.Lhs[0].(*ast.Ident); ok {
					procObj = dinfo.Defs[id]
				}
			}
			return true
		})
		l2, _ := dg.LocOf(second)
		under := procObj != nil && factMatches(dg.FactsAt(l2), func(ft Fact) bool { return !ft.Val && c14isIdentOf(dinfo, ft.Cond, procObj) })
		c.Check(under, rule, dp.Key+"#re-offer only when not processed", second.Pos(), m, "", "the second bufferRecord is not guarded by `!processed` of the first: a processed record is buffered twice")
		l1, _ := dg.LocOf(first)
		c.Check(dg.Dominates(l1, l2) && !dg.reachFwd(l2, l1) && !dg.reachFwd(l2, l2), rule, dp.Key+"#offers are not in a loop", first.Pos(), m, "", "the offers to bufferRecord are inside a loop")
	}
}
