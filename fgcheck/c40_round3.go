package main

import (
	"fmt"
	"go/ast"
	"go/token"
	"go/types"
	"sort"
	"strings"
)

// Round-3 rules of C40.
//
//	start-reset-offset-readers       who-may-read / who-may-write tables of cfg.startOffset and
//	                                 cfg.resetOffset: the start offset is read by the initial
//	                                 assignment paths (direct discovery, group no-commit
//	                                 fallback), the reset offset only by the OffsetOutOfRange
//	                                 path; the option setters write their own field; NewClient
//	                                 copies one into the other only when the other is unset.
//	new-partition-takes-start-offset every offset findNewAssignments hands out is cfg.startOffset
//	                                 or the offset pinned for that partition (directConsumer.ps).
//	reload-carries-original-offset   the retry arm of handleListOrEpochResults re-queues the
//	                                 original request (whole value, same load type).
//	offset-copy-covers-all-fields    an Offset literal (or a field-by-field rebuild) that takes a
//	                                 field from another Offset value takes all user-visible
//	                                 fields (at, relative, epoch, noReset, afterMilli); builder
//	                                 methods modify and return the receiver copy; every
//	                                 offsetLoad literal carries an Offset.
//	loaded-request-is-original-load  every loadedOffset result carries the unmodified
//	                                 offsetLoad it was issued for (what a retry re-queues).
func c40round3(c *Ctx, m *Module) {
	c40offsetReaders(c, m)
	c40newPartitionOffset(c, m)
	c40reload(c, m)
	c40copies(c, m)
	c40loadedRequest(c, m)
}

// c40reads lists the reads (selector expressions that are not store targets) of field in f.
func c40reads(f *Func, field *types.Var) []ast.Node {
	info := f.Info()
	lhs := map[ast.Node]bool{}
	for _, st := range storesTo(f.Decl.Body, info, field, true) {
		if st.LHS != nil && st.Kind != "addr" {
			lhs[unparen(st.LHS)] = true
		}
	}
	var out []ast.Node
	for _, r := range readsOf(f.Decl.Body, info, field, true) {
		if !lhs[r] {
			out = append(out, r)
		}
	}
	return out
}

func c40offsetReaders(c *Ctx, m *Module) {
	rule := "start-reset-offset-readers"
	start, reset := fieldMust(c, m, "cfg", "startOffset"), fieldMust(c, m, "cfg", "resetOffset")
	setStart, setReset := fieldMust(c, m, "cfg", "setStartOffset"), fieldMust(c, m, "cfg", "setResetOffset")
	if start == nil || reset == nil || setStart == nil || setReset == nil {
		return
	}
	type tab struct {
		field    *types.Var
		name     string
		readers  map[string]string
		required []string
		writers  map[string]string
		misuse   string
	}
	tabs := []tab{
		{start, "startOffset", map[string]string{
			"kgo.directConsumer.findNewAssignments": "initial offset of every partition of a whole-topic / regex selection",
			"kgo.groupConsumer.fetchOffsets":        "initial offset when the group has no commit for the partition",
			"kgo.Client.OptValues":                  "introspection",
			"kgo.NewClient":                         "default of the reset offset when only the start offset was configured",
		}, []string{"kgo.directConsumer.findNewAssignments", "kgo.groupConsumer.fetchOffsets"},
			map[string]string{"kgo.ConsumeStartOffset": "option", "kgo.NewClient": "defaulting", "kgo.defaultCfg": "default"},
			"ConsumeStartOffset is documented to apply only when a partition is consumed for the first time; read elsewhere, the position after an OffsetOutOfRange reset (or another path) follows the start Offset instead of ConsumeResetOffset"},
		{reset, "resetOffset", map[string]string{
			"kgo.source.handleReqResp": "OffsetOutOfRange reset (and the NoResetOffset test)",
			"kgo.Client.OptValues":     "introspection",
			"kgo.NewClient":            "default of the start offset when only the reset offset was configured",
		}, []string{"kgo.source.handleReqResp"},
			map[string]string{"kgo.ConsumeResetOffset": "option", "kgo.NewClient": "defaulting", "kgo.defaultCfg": "default"},
			"ConsumeResetOffset is documented to be used only after OffsetOutOfRange; a newly assigned partition that takes it does not start where the ConsumeStartOffset rules put it whenever both options are configured differently"},
	}
	for _, t := range tabs {
		nR, nW := 0, 0
		seen := map[string]bool{}
		for _, f := range m.FuncsIn("kgo") {
			if rs := c40reads(f, t.field); len(rs) > 0 {
				nR++
				seen[f.Key] = true
				c.Touch(f)
				why, ok := t.readers[f.Key]
				c.Check(ok, rule, f.Key+" reads cfg."+t.name, rs[0].Pos(), m, why,
					"cfg."+t.name+" is read by a function outside the confirmed reader table: "+t.misuse)
			}
			ws := storesTo(f.Decl.Body, f.Info(), t.field, true)
			if len(ws) > 0 {
				nW++
				why, ok := t.writers[f.Key]
				c.Check(ok, rule, f.Key+" writes cfg."+t.name, ws[0].Node.Pos(), m, why, "cfg."+t.name+" is written by a function outside the confirmed writer table")
			}
		}
		for _, k := range t.required {
			if f := c.NeedFunc(m, k); f != nil {
				c.Check(seen[k], rule, k+" takes its offset from cfg."+t.name, f.Pos(), m, t.readers[k],
					k+" no longer reads cfg."+t.name+" ("+t.readers[k]+"): the position is resolved from something other than the documented option")
			}
		}
		c.Floor(rule+"#"+t.name+"-readers", nR, len(t.readers))
		c.Floor(rule+"#"+t.name+"-writers", nW, 3)
	}
	// option setters write their own field (and flag) from their parameter
	for _, o := range []struct {
		key         string
		own, flag   *types.Var
		other, oflg *types.Var
	}{
		{"kgo.ConsumeStartOffset", start, setStart, reset, setReset},
		{"kgo.ConsumeResetOffset", reset, setReset, start, setStart},
	} {
		f := c.NeedFunc(m, o.key)
		if f == nil {
			continue
		}
		info := f.Info()
		var param types.Object
		if f.Decl.Type.Params.NumFields() == 1 && len(f.Decl.Type.Params.List[0].Names) == 1 {
			param = info.Defs[f.Decl.Type.Params.List[0].Names[0]]
		}
		okOwn, okFlag := false, false
		for _, st := range storesTo(f.Decl.Body, info, o.own, true) {
			if id, ok := unparen(st.RHS).(*ast.Ident); ok && st.RHS != nil && param != nil && info.Uses[id] == param && st.Kind == "assign" {
				okOwn = true
			}
		}
		for _, st := range storesTo(f.Decl.Body, info, o.flag, true) {
			if st.RHS != nil {
				if b, ok := constBool(info, st.RHS); ok && b {
					okFlag = true
				}
			}
		}
		wrong := len(storesTo(f.Decl.Body, info, o.other, true))+len(storesTo(f.Decl.Body, info, o.oflg, true)) > 0
		c.Check(okOwn && okFlag && !wrong, rule, o.key+"#sets-own-field", f.Pos(), m, "cfg."+o.own.Name()+" = offset, cfg."+o.flag.Name()+" = true",
			o.key+" does not store its argument into cfg."+o.own.Name()+" and mark cfg."+o.flag.Name()+" (or touches the other option's field): the configured Offset is applied to the wrong situation")
	}
	// defaulting in NewClient: copy only into the option that was not given
	if f := c.NeedFunc(m, "kgo.NewClient"); f != nil {
		info := f.Info()
		g := f.Graph()
		hasFact := func(l Loc, fld *types.Var, val bool) bool {
			return factMatches(g.FactsAt(l), func(ft Fact) bool {
				return ft.Val == val && sameField(fieldOfSel(info, ft.Cond), fld)
			})
		}
		for _, d := range []struct {
			dst, src       *types.Var
			dstSet, srcSet *types.Var
		}{{start, reset, setStart, setReset}, {reset, start, setReset, setStart}} {
			sts := storesTo(f.Decl.Body, info, d.dst, false)
			name := "kgo.NewClient: cfg." + d.dst.Name() + " defaults to cfg." + d.src.Name() + " only when it was not configured"
			if len(sts) != 1 {
				c.Fail(rule, name, f.Pos(), m, fmt.Sprintf("%d stores of cfg.%s in NewClient, one defaulting store confirmed on the reference tree", len(sts), d.dst.Name()))
				continue
			}
			st := sts[0]
			l, _ := g.LocOf(st.Node)
			okSrc := st.RHS != nil && sameField(fieldOfSel(info, st.RHS), d.src)
			c.Check(okSrc && hasFact(l, d.dstSet, false) && hasFact(l, d.srcSet, true), rule, name, st.Node.Pos(), m, "",
				"cfg."+d.dst.Name()+" is overwritten in NewClient without the test `cfg."+d.srcSet.Name()+" && !cfg."+d.dstSet.Name()+"`: when both ConsumeStartOffset and ConsumeResetOffset are configured one of them is silently replaced by the other")
		}
	}
}

func c40newPartitionOffset(c *Ctx, m *Module) {
	rule := "new-partition-takes-start-offset"
	f := c.NeedFunc(m, "kgo.directConsumer.findNewAssignments")
	start := fieldMust(c, m, "cfg", "startOffset")
	ps := fieldMust(c, m, "directConsumer", "ps")
	offT := m.Object("kgo", "Offset")
	if f == nil || start == nil || ps == nil || offT == nil {
		return
	}
	info := f.Info()
	// value variables of `range d.ps[...]`
	pinned := map[types.Object]bool{}
	ast.Inspect(f.Decl.Body, func(x ast.Node) bool {
		rs, ok := x.(*ast.RangeStmt)
		if !ok || rs.Value == nil {
			return true
		}
		if ix, ok := unparen(rs.X).(*ast.IndexExpr); ok && sameField(fieldOfSel(info, ix.X), ps) {
			if id, ok := rs.Value.(*ast.Ident); ok {
				pinned[info.Defs[id]] = true
			}
		}
		return true
	})
	// a pinned offset that is re-assigned / modified on the way is no longer the pinned offset
	ast.Inspect(f.Decl.Body, func(x ast.Node) bool {
		as, ok := x.(*ast.AssignStmt)
		if !ok {
			return true
		}
		for _, l := range as.Lhs {
			e := unparen(l)
			if sel, ok := e.(*ast.SelectorExpr); ok {
				e = unparen(sel.X)
			}
			if id, ok := e.(*ast.Ident); ok && pinned[info.Uses[id]] {
				delete(pinned, info.Uses[id])
			}
		}
		return true
	})
	nStart, nPinned, idx := 0, 0, 0
	ast.Inspect(f.Decl.Body, func(x ast.Node) bool {
		as, ok := x.(*ast.AssignStmt)
		if !ok || len(as.Lhs) != len(as.Rhs) {
			return true
		}
		for i, l := range as.Lhs {
			ix, ok := unparen(l).(*ast.IndexExpr)
			if !ok {
				continue
			}
			mt, ok := info.TypeOf(ix.X).Underlying().(*types.Map)
			if !ok || !types.Identical(mt.Elem(), offT.Type()) {
				continue
			}
			idx++
			r := unparen(as.Rhs[i])
			kind := ""
			if sameField(fieldOfSel(info, r), start) {
				kind = "start"
				nStart++
			} else if id, ok := r.(*ast.Ident); ok && pinned[info.Uses[id]] {
				kind = "pinned"
				nPinned++
			}
			c.Check(kind != "", rule, fmt.Sprintf("%s: %s = ...#%d", f.Key, nosp(exprStr(l)), idx), as.Pos(), m, kind,
				"a newly discovered partition is assigned the offset `"+exprStr(r)+"`, neither cfg.startOffset nor the offset pinned for it in directConsumer.ps: the first record returned is not where the ConsumeStartOffset rules put it (cfg.resetOffset equals the start offset only when one of the two options is left unset)")
		}
		return true
	})
	c.Check(nStart >= 1 && nPinned >= 1, rule, f.Key+"#sites", f.Pos(), m, "", "the start-offset / pinned-offset assignments of findNewAssignments were not found")
}

// c40semanticFields: the user-visible fields of Offset = the fields the builder
// methods and constructors set.
func c40semanticFields(c *Ctx, m *Module) (map[string]*types.Var, *types.Struct, types.Type) {
	offT := m.Object("kgo", "Offset")
	if offT == nil {
		c.Undecided("anchor", "kgo.Offset", token.NoPos, m, "type not found")
		return nil, nil, nil
	}
	st, _ := offT.Type().Underlying().(*types.Struct)
	if st == nil {
		return nil, nil, nil
	}
	out := map[string]*types.Var{}
	for _, f := range m.FuncsIn("kgo") {
		sig := f.Obj.Type().(*types.Signature)
		if sig.Results().Len() != 1 || !types.Identical(sig.Results().At(0).Type(), offT.Type()) || !f.Obj.Exported() {
			continue
		}
		if sig.Recv() != nil && !types.Identical(sig.Recv().Type(), offT.Type()) {
			continue
		}
		if sig.Recv() == nil && sig.Params().Len() != 0 {
			continue
		}
		for i := 0; i < st.NumFields(); i++ {
			if len(storesTo(f.Decl.Body, f.Info(), st.Field(i), true)) > 0 {
				out[st.Field(i).Name()] = st.Field(i)
			}
		}
	}
	return out, st, offT.Type()
}

func c40offsetFieldOf(info *types.Info, st *types.Struct, e ast.Expr) *types.Var {
	v := fieldOfSel(info, e)
	if v == nil {
		return nil
	}
	for i := 0; i < st.NumFields(); i++ {
		if sameField(st.Field(i), v) {
			return st.Field(i)
		}
	}
	return nil
}

// c40litCopy classifies an Offset literal: which semantic fields it gives, and
// the source expressions it copies Offset fields from.
func c40litCopy(info *types.Info, st *types.Struct, lit *ast.CompositeLit) (given map[string]bool, srcs []string) {
	given = map[string]bool{}
	seen := map[string]bool{}
	for i, e := range lit.Elts {
		var v ast.Expr
		name := ""
		if kv, ok := e.(*ast.KeyValueExpr); ok {
			if id, ok := kv.Key.(*ast.Ident); ok {
				name = id.Name
			}
			v = kv.Value
		} else if i < st.NumFields() {
			name, v = st.Field(i).Name(), e
		}
		given[name] = true
		if sel, ok := unparen(v).(*ast.SelectorExpr); ok && c40offsetFieldOf(info, st, sel) != nil {
			if s := nosp(exprStr(sel.X)); !seen[s] {
				seen[s] = true
				srcs = append(srcs, s)
			}
		}
	}
	return
}

func c40missing(sem map[string]*types.Var, given map[string]bool) []string {
	var miss []string
	for n := range sem {
		if !given[n] {
			miss = append(miss, n)
		}
	}
	sort.Strings(miss)
	return miss
}

func c40copies(c *Ctx, m *Module) {
	rule := "offset-copy-covers-all-fields"
	sem, st, offT := c40semanticFields(c, m)
	if st == nil {
		return
	}
	for _, want := range []string{"at", "relative", "epoch", "noReset", "afterMilli"} {
		if sem[want] == nil {
			c.Undecided(rule, "kgo.Offset."+want+" is a builder-set field", token.NoPos, m, "the user-visible field set of Offset changed; the coverage rule must be re-confirmed")
		}
	}
	loadT := m.Object("kgo", "offsetLoad")
	if loadT == nil {
		c.Undecided("anchor", "kgo.offsetLoad", token.NoPos, m, "type not found")
		return
	}
	nOff, nLoad := 0, 0
	for _, f := range m.FuncsIn("kgo") {
		info := f.Info()
		iOff, iLoad := 0, 0
		ast.Inspect(f.Decl.Body, func(x ast.Node) bool {
			lit, ok := x.(*ast.CompositeLit)
			if !ok {
				return true
			}
			t := info.TypeOf(lit)
			switch {
			case t != nil && types.Identical(t, offT):
				nOff++
				iOff++
				given, srcs := c40litCopy(info, st, lit)
				miss := c40missing(sem, given)
				name := fmt.Sprintf("%s: Offset literal #%d", f.Key, iOff)
				if len(srcs) == 0 {
					c.OK(rule, name, lit.Pos(), m, "not built from another Offset")
				} else {
					c.Touch(f)
					c.Check(len(miss) == 0, rule, name, lit.Pos(), m, "copies every user-visible field",
						"an Offset is rebuilt field by field from the Offset `"+strings.Join(srcs, "`, `")+"` without "+strings.Join(miss, ", ")+
							": the copy silently changes kind (without afterMilli an AfterMilli(t) offset becomes the exact offset At(t) and resolves to the log end; without noReset / relative / epoch the reset policy, the relative shift or truncation detection are lost)")
				}
			case t != nil && types.Identical(t, loadT.Type()):
				nLoad++
				iLoad++
				has := false
				for i, e := range lit.Elts {
					if kv, ok := e.(*ast.KeyValueExpr); ok {
						if id, ok := kv.Key.(*ast.Ident); ok && id.Name == "Offset" {
							has = true
						}
					} else if i == 1 {
						has = true
					}
				}
				c.Check(has, rule, fmt.Sprintf("%s: offsetLoad literal #%d carries an Offset", f.Key, iLoad), lit.Pos(), m, "",
					"an offsetLoad is built without its Offset: the load is issued for the zero Offset, i.e. the exact offset 0")
			}
			return true
		})
		// field-by-field rebuild through assignments onto a variable that is not a whole copy
		c40assignCopies(c, m, f, rule, sem, st, offT)
	}
	c.Floor(rule+"#Offset-literals", nOff, 10)
	c.Floor(rule+"#offsetLoad-literals", nLoad, 8)
	c40builders(c, m, sem, st, offT)
}

// c40assignCopies flags `x.f = y.g` (both fields of Offset, x a local that was not
// initialised from a whole Offset value) unless every user-visible field is copied.
func c40assignCopies(c *Ctx, m *Module, f *Func, rule string, sem map[string]*types.Var, st *types.Struct, offT types.Type) {
	info := f.Info()
	type acc struct {
		pos   token.Pos
		given map[string]bool
		srcs  map[string]bool
	}
	by := map[types.Object]*acc{}
	rootObj := func(e ast.Expr) types.Object {
		for {
			switch x := unparen(e).(type) {
			case *ast.SelectorExpr:
				e = x.X
			case *ast.Ident:
				return info.Uses[x]
			default:
				return nil
			}
		}
	}
	ast.Inspect(f.Decl.Body, func(x ast.Node) bool {
		as, ok := x.(*ast.AssignStmt)
		if !ok || as.Tok != token.ASSIGN || len(as.Lhs) != len(as.Rhs) {
			return true
		}
		for i, l := range as.Lhs {
			lsel, ok := unparen(l).(*ast.SelectorExpr)
			if !ok {
				continue
			}
			lf := c40offsetFieldOf(info, st, lsel)
			rsel, ok2 := unparen(as.Rhs[i]).(*ast.SelectorExpr)
			if lf == nil || !ok2 || c40offsetFieldOf(info, st, rsel) == nil {
				continue
			}
			lo, ro := rootObj(lsel.X), rootObj(rsel.X)
			if lo == nil || lo == ro {
				continue
			}
			a := by[lo]
			if a == nil {
				a = &acc{pos: as.Pos(), given: map[string]bool{}, srcs: map[string]bool{}}
				by[lo] = a
			}
			a.given[lf.Name()] = true
			a.srcs[nosp(exprStr(rsel.X))] = true
		}
		return true
	})
	if len(by) == 0 {
		return
	}
	// is the destination initialised from a whole Offset-carrying value?
	wholeInit := func(o types.Object) bool {
		whole := false
		ast.Inspect(f.Decl.Body, func(x ast.Node) bool {
			switch s := x.(type) {
			case *ast.AssignStmt:
				for i, l := range s.Lhs {
					id, ok := unparen(l).(*ast.Ident)
					if !ok || len(s.Rhs) != len(s.Lhs) {
						continue
					}
					if (info.Defs[id] == o || info.Uses[id] == o) && c40isWholeValue(info, s.Rhs[i]) {
						whole = true
					}
				}
			case *ast.RangeStmt:
				for _, kv := range []ast.Expr{s.Key, s.Value} {
					if id, ok := kv.(*ast.Ident); ok && info.Defs[id] == o {
						whole = true
					}
				}
			}
			return true
		})
		if v, ok := o.(*types.Var); ok {
			// parameters and receivers are whole values
			sig := f.Obj.Type().(*types.Signature)
			for i := 0; i < sig.Params().Len(); i++ {
				if sig.Params().At(i) == v {
					whole = true
				}
			}
			if sig.Recv() == v {
				whole = true
			}
			if v.IsField() || v.Parent() == v.Pkg().Scope() {
				whole = true
			}
		}
		return whole
	}
	var objs []types.Object
	for o := range by {
		objs = append(objs, o)
	}
	sort.Slice(objs, func(i, j int) bool { return by[objs[i]].pos < by[objs[j]].pos })
	for _, o := range objs {
		a := by[o]
		if wholeInit(o) {
			continue
		}
		miss := c40missing(sem, a.given)
		c.Check(len(miss) == 0, rule, f.Key+": "+o.Name()+" rebuilt by field assignments", a.pos, m, "copies every user-visible field",
			"the Offset `"+o.Name()+"` is rebuilt field by field from "+strings.Join(sortedKeys(a.srcs), ", ")+" without "+strings.Join(miss, ", ")+": the copy silently changes kind (AfterMilli degrades to At, NoReset / Relative / epoch are lost)")
	}
}

// c40isWholeValue: the expression yields an existing Offset / offsetLoad value as a whole
// (variable, field, index, call result) rather than a fresh literal.
func c40isWholeValue(info *types.Info, e ast.Expr) bool {
	switch x := unparen(e).(type) {
	case *ast.CompositeLit:
		return false
	case *ast.Ident:
		return x.Name != "nil"
	case *ast.SelectorExpr, *ast.IndexExpr, *ast.StarExpr:
		return true
	case *ast.CallExpr:
		// NewOffset() / NoResetOffset() are fresh values
		if id, ok := x.Fun.(*ast.Ident); ok && (id.Name == "NewOffset" || id.Name == "NoResetOffset") {
			return false
		}
		return true
	}
	return false
}

// c40builders: every Offset method returning Offset modifies and returns the receiver
// copy; every builder but AfterMilli clears afterMilli, AfterMilli sets it.
func c40builders(c *Ctx, m *Module, sem map[string]*types.Var, st *types.Struct, offT types.Type) {
	rule := "builders-modify-receiver-copy"
	n := 0
	am := sem["afterMilli"]
	for _, f := range m.FuncsIn("kgo") {
		sig := f.Obj.Type().(*types.Signature)
		if sig.Recv() == nil || !types.Identical(sig.Recv().Type(), offT) || sig.Results().Len() != 1 || !types.Identical(sig.Results().At(0).Type(), offT) {
			continue
		}
		n++
		c.Touch(f)
		info := f.Info()
		var recv types.Object
		if len(f.Decl.Recv.List[0].Names) == 1 {
			recv = info.Defs[f.Decl.Recv.List[0].Names[0]]
		}
		var bad []string
		nRet := 0
		ast.Inspect(f.Decl.Body, func(x ast.Node) bool {
			switch s := x.(type) {
			case *ast.FuncLit:
				return false
			case *ast.ReturnStmt:
				nRet++
				id, ok := unparen(s.Results[0]).(*ast.Ident)
				if !ok || recv == nil || info.Uses[id] != recv {
					bad = append(bad, "returns `"+exprStr(s.Results[0])+"` instead of the modified receiver copy")
				}
			case *ast.AssignStmt:
				for _, l := range s.Lhs {
					if id, ok := unparen(l).(*ast.Ident); ok && recv != nil && info.Uses[id] == recv {
						bad = append(bad, "replaces the receiver as a whole (`"+strings.TrimSpace(nodeStr(s))+"`)")
					}
				}
			}
			return true
		})
		if nRet == 0 {
			bad = append(bad, "no return statement")
		}
		c.Check(len(bad) == 0, rule, f.Key+"#returns-receiver", f.Pos(), m, "o.x = ...; return o",
			"the builder "+f.Key+" "+strings.Join(bad, "; ")+": fields it is not meant to change (noReset, relative, epoch, at) are not carried over, e.g. NoResetOffset().AtEnd().Relative(-3) loses the no-reset policy or the end anchor")
		if am != nil {
			g := f.Graph()
			want := f.Decl.Name.Name == "AfterMilli"
			okFlag := false
			for _, s := range storesTo(f.Decl.Body, info, am, false) {
				if s.RHS == nil || s.Kind != "assign" {
					continue
				}
				b, ok := constBool(info, s.RHS)
				l, ok2 := g.LocOf(s.Node)
				if ok && ok2 && b == want && len(g.FactsAt(l)) == 0 {
					okFlag = true
				} else {
					okFlag = false
					break
				}
			}
			c.Check(okFlag, rule, f.Key+"#after-milli-flag", f.Pos(), m, fmt.Sprintf("afterMilli = %v", want),
				fmt.Sprintf("the builder %s does not unconditionally set afterMilli = %v: the `at` value is then interpreted as the wrong kind (a timestamp listed as an exact offset, or an exact offset looked up as a timestamp)", f.Key, want))
		}
	}
	c.Floor(rule, n, 7)
}

func c40reload(c *Ctx, m *Module) {
	rule := "reload-carries-original-offset"
	f := c.NeedFunc(m, "kgo.consumerSession.handleListOrEpochResults")
	addLoad := m.Method("kgo", "listOrEpochLoads", "addLoad")
	reqF := fieldMust(c, m, "loadedOffset", "request")
	topicF, partF := fieldMust(c, m, "loadedOffset", "topic"), fieldMust(c, m, "loadedOffset", "partition")
	ltF := fieldMust(c, m, "loadedOffsets", "loadType")
	embOff := fieldMust(c, m, "offsetLoad", "Offset")
	sem, st, offT := c40semanticFields(c, m)
	if f == nil || addLoad == nil || reqF == nil || topicF == nil || partF == nil || ltF == nil || embOff == nil || st == nil {
		if addLoad == nil {
			c.Undecided("anchor", "kgo.listOrEpochLoads.addLoad", token.NoPos, m, "method not found")
		}
		return
	}
	info := f.Info()
	calls := callsTo(f.Decl.Body, info, addLoad, true)
	for i, call := range calls {
		name := fmt.Sprintf("%s: addLoad#%d re-queues the failed request unchanged", f.Key, i+1)
		if len(call.Args) != 4 {
			c.Undecided(rule, name, call.Pos(), m, "unexpected argument count")
			continue
		}
		var bad []string
		// the loop variable walked over loaded.loaded
		var loadVar types.Object
		loops := c39enclosingRanges(f.Decl.Body, call)
		if len(loops) > 0 {
			if id, ok := loops[len(loops)-1].Value.(*ast.Ident); ok {
				loadVar = info.Defs[id]
			}
		}
		onLoad := func(e ast.Expr, fld *types.Var) bool {
			sel, ok := unparen(e).(*ast.SelectorExpr)
			if !ok || !sameField(fieldOfSel(info, sel), fld) {
				return false
			}
			id, ok := unparen(sel.X).(*ast.Ident)
			return ok && loadVar != nil && info.Uses[id] == loadVar
		}
		if !onLoad(call.Args[0], topicF) || !onLoad(call.Args[1], partF) {
			bad = append(bad, "topic / partition are not those of the failed load")
		}
		if !sameField(fieldOfSel(info, call.Args[2]), ltF) {
			bad = append(bad, "the load type `"+exprStr(call.Args[2])+"` is not the failed request's load type (a list load retried as an epoch load, or the reverse, resolves a different position)")
		}
		arg := unparen(call.Args[3])
		switch {
		case onLoad(arg, reqF):
			// whole original request
		default:
			lit, isLit := arg.(*ast.CompositeLit)
			if !isLit {
				c.Undecided(rule, name, call.Pos(), m, "the re-queued load `"+exprStr(arg)+"` is neither the original request nor a literal: not classified")
				continue
			}
			var offV ast.Expr
			for k, e := range lit.Elts {
				if kv, ok := e.(*ast.KeyValueExpr); ok {
					if id, ok := kv.Key.(*ast.Ident); ok && id.Name == "Offset" {
						offV = kv.Value
					}
				} else if k == 1 {
					offV = e
				}
			}
			isReqOffset := func(e ast.Expr) bool { // load.request.Offset
				sel, ok := unparen(e).(*ast.SelectorExpr)
				return ok && sameField(fieldOfSel(info, sel), embOff) && onLoad(sel.X, reqF)
			}
			switch {
			case offV == nil:
				bad = append(bad, "the rebuilt offsetLoad has no Offset (the retry lists the exact offset 0)")
			case isReqOffset(offV):
			default:
				ol, ok := unparen(offV).(*ast.CompositeLit)
				if !ok || !types.Identical(info.TypeOf(ol), offT) {
					bad = append(bad, "the retried Offset `"+exprStr(offV)+"` is not the failed request's Offset")
					break
				}
				given, _ := c40litCopy(info, st, ol)
				if miss := c40missing(sem, given); len(miss) > 0 {
					bad = append(bad, "the retried Offset is rebuilt without "+strings.Join(miss, ", "))
				}
				for _, e := range ol.Elts {
					kv, ok := e.(*ast.KeyValueExpr)
					if !ok {
						continue
					}
					key, _ := kv.Key.(*ast.Ident)
					sel, ok := unparen(kv.Value).(*ast.SelectorExpr)
					fv := (*types.Var)(nil)
					if ok {
						fv = c40offsetFieldOf(info, st, sel)
					}
					if key == nil || fv == nil || fv.Name() != key.Name || !(onLoad(sel.X, reqF) || isReqOffset(sel.X)) {
						if key != nil && sem[key.Name] != nil {
							bad = append(bad, "field "+key.Name+" is `"+exprStr(kv.Value)+"`, not the failed request's "+key.Name)
						}
					}
				}
			}
		}
		c.Check(len(bad) == 0, rule, name, call.Pos(), m, "load.request re-queued as a whole",
			"a failed list / epoch load is retried with a different Offset than it was issued for: "+strings.Join(bad, "; ")+
				" (after one retryable ListOffsets failure AfterMilli(t) is resolved as At(t) = the log end, a Relative / NoReset / epoch request loses its meaning)")
	}
	c.Floor(rule, len(calls), 1)
}

func c40loadedRequest(c *Ctx, m *Module) {
	rule := "loaded-request-is-original-load"
	lo := m.Object("kgo", "loadedOffset")
	ol := m.Object("kgo", "offsetLoad")
	if lo == nil || ol == nil {
		c.Undecided("anchor", "kgo.loadedOffset / kgo.offsetLoad", token.NoPos, m, "type not found")
		return
	}
	olSt, _ := ol.Type().Underlying().(*types.Struct)
	offSt, _ := m.Object("kgo", "Offset").Type().Underlying().(*types.Struct)
	n := 0
	for _, f := range m.FuncsIn("kgo") {
		info := f.Info()
		idx := 0
		ast.Inspect(f.Decl.Body, func(x ast.Node) bool {
			lit, ok := x.(*ast.CompositeLit)
			if !ok || !types.Identical(info.TypeOf(lit), lo.Type()) {
				return true
			}
			n++
			idx++
			c.Touch(f)
			name := fmt.Sprintf("%s: loadedOffset literal #%d", f.Key, idx)
			var rv ast.Expr
			for _, e := range lit.Elts {
				if kv, ok := e.(*ast.KeyValueExpr); ok {
					if id, ok := kv.Key.(*ast.Ident); ok && id.Name == "request" {
						rv = kv.Value
					}
				}
			}
			if rv == nil {
				c.Fail(rule, name, lit.Pos(), m, "a list / epoch result does not carry the request it answers: when the load failed, handleListOrEpochResults retries the zero offsetLoad (exact offset 0 on replica 0) instead of the configured Offset")
				return true
			}
			id, ok := unparen(rv).(*ast.Ident)
			if !ok || !types.Identical(info.TypeOf(id), ol.Type()) {
				c.Fail(rule, name, rv.Pos(), m, "the request of a list / epoch result is `"+exprStr(rv)+"`, not the offsetLoad variable taken from the load map: a retry re-queues a different Offset")
				return true
			}
			// the variable is never modified in this function
			obj := info.Uses[id]
			mod := ""
			ast.Inspect(f.Decl.Body, func(y ast.Node) bool {
				as, ok := y.(*ast.AssignStmt)
				if !ok {
					return true
				}
				for _, l := range as.Lhs {
					l = unparen(l)
					if lid, ok := l.(*ast.Ident); ok && info.Uses[lid] == obj && as.Tok == token.ASSIGN {
						mod = strings.TrimSpace(nodeStr(as))
					}
					if sel, ok := l.(*ast.SelectorExpr); ok {
						if rid, ok := unparen(sel.X).(*ast.Ident); ok && info.Uses[rid] == obj {
							mod = strings.TrimSpace(nodeStr(as))
						}
						if s2, ok := unparen(sel.X).(*ast.SelectorExpr); ok {
							if rid, ok := unparen(s2.X).(*ast.Ident); ok && info.Uses[rid] == obj {
								mod = strings.TrimSpace(nodeStr(as))
							}
						}
					}
				}
				return true
			})
			_, _ = olSt, offSt
			c.Check(mod == "", rule, name, rv.Pos(), m, "request: "+id.Name,
				"the offsetLoad reported as the request of a list / epoch result is modified first (`"+mod+"`): a retry re-queues the modified Offset, not the one that was configured")
			return true
		})
	}
	c.Floor(rule, n, 6)
}
