package main

import (
	"go/ast"
	"go/types"
)

// c11purgeMarks: EndTransaction decides whether an EndTxn must be sent from
// the per-partition addedToTxn marks of the recBufs reachable through
// producer.topics. A recBuf that is removed from that map while the client is
// inside a transaction (PurgeTopicsFromClient / PurgeTopicsFromProducing) takes
// its mark with it: under the classic transaction protocol EndTransaction then
// finds nothing added, returns nil without sending EndTxn, and the open
// broker-side transaction is merged into the next one (an "aborted" record
// becomes visible when the next transaction commits). Necessary structural
// condition: the function that abandons recBufs reads their addedToTxn mark and
// transfers it to producer-level state that EndTransaction folds into anyAdded.
func c11purgeMarks(c *Ctx, m *Module) {
	rule := "txn-marks-survive-purge"
	pf := c.NeedFunc(m, "kgo.producer.purgeTopics")
	ef := c.NeedFunc(m, "kgo.Client.EndTransaction")
	added := m.Field("kgo", "recBuf", "addedToTxn")
	if pf == nil || ef == nil || added == nil {
		if added == nil {
			c.Undecided("anchor", "recBuf.addedToTxn", 0, m, "field not found")
		}
		return
	}
	// (0) purgeTopics is where recBufs are abandoned: it removes them from their sink
	abandons := len(callsNamed(pf.Decl.Body, pf.Info(), "removeRecBuf", true)) > 0
	c.Check(abandons, rule, pf.Key+"#abandons-recbufs", pf.Pos(), m, "anchor: recBufs are removed from their sink here", "purgeTopics no longer removes recBufs from their sink (anchor moved)")
	// (a) the mark of every abandoned recBuf is read
	pinfo := pf.Info()
	var reads []*ast.CallExpr
	ast.Inspect(pf.Decl.Body, func(x ast.Node) bool {
		call, ok := x.(*ast.CallExpr)
		if !ok {
			return true
		}
		sel, ok := unparen(call.Fun).(*ast.SelectorExpr)
		if !ok || (sel.Sel.Name != "Load" && sel.Sel.Name != "Swap") {
			return true
		}
		if fv := fieldOfSel(pinfo, sel.X); fv == added {
			reads = append(reads, call)
		}
		return true
	})
	if len(reads) == 0 {
		c.Fail(rule, pf.Key+": purged recBuf.addedToTxn is read", pf.Pos(), m, "purgeTopics abandons recBufs without looking at their addedToTxn mark: a topic purged inside a transaction takes the only record that the transaction has begun broker-side with it; under the classic protocol EndTransaction then returns nil without sending EndTxn and the open transaction is merged into the next one (BeginTransaction; ProduceSync(r1); PurgeTopicsFromClient(t); EndTransaction(TryAbort)=nil; next transaction's commit makes r1 visible)")
		return
	}
	c.OK(rule, pf.Key+": purged recBuf.addedToTxn is read", reads[0].Pos(), m, "mark read before the recBuf is forgotten")
	// (b) transferred to a producer-level atomic flag
	pst := m.byPkg["kgo"].Types.Scope().Lookup("producer")
	carriers := map[*types.Var]bool{}
	if pst != nil {
		if st, ok := pst.Type().Underlying().(*types.Struct); ok {
			for i := 0; i < st.NumFields(); i++ {
				fld := st.Field(i)
				for _, s := range StoreSites([]*Func{pf}, fld) {
					if s.Kind == "atomic:Store" && exprStr(s.RHS) == "true" {
						carriers[fld] = true
					}
				}
			}
		}
	}
	c.Check(len(carriers) > 0, rule, pf.Key+": mark transferred to producer state", pf.Pos(), m, "producer-level flag set", "the addedToTxn mark of a purged recBuf is read but not transferred to any producer-level flag")
	if len(carriers) == 0 {
		return
	}
	// (c) EndTransaction folds the carrier into anyAdded
	einfo := ef.Info()
	g := ef.Graph()
	any := localObj(ef, "anyAdded")
	if any == nil {
		c.Undecided(rule, ef.Key+": anyAdded", ef.Pos(), m, "local anyAdded not found")
		return
	}
	mentionsCarrier := func(e ast.Expr) bool {
		found := false
		var visit func(e ast.Expr, depth int)
		visit = func(e ast.Expr, depth int) {
			ast.Inspect(e, func(x ast.Node) bool {
				switch v := x.(type) {
				case *ast.SelectorExpr:
					if fv := fieldOfSel(einfo, v); fv != nil && carriers[fv] {
						found = true
					}
				case *ast.Ident:
					if depth < 2 {
						if o := einfo.Uses[v]; o != nil {
							if _, isVar := o.(*types.Var); isVar && o.Parent() != nil && o.Pkg() != nil && o.Parent() != o.Pkg().Scope() {
								if d := singleDef(ef, o); d != nil {
									visit(d, depth+1)
								}
							}
						}
					}
				}
				return true
			})
		}
		visit(e, 0)
		return found
	}
	folded := false
	ast.Inspect(ef.Decl.Body, func(x ast.Node) bool {
		as, ok := x.(*ast.AssignStmt)
		if !ok || len(as.Lhs) != 1 || len(as.Rhs) != 1 {
			return true
		}
		id, ok := as.Lhs[0].(*ast.Ident)
		if !ok || einfo.Uses[id] != any {
			return true
		}
		if exprStr(as.Rhs[0]) != "true" {
			if mentionsCarrier(as.Rhs[0]) {
				folded = true
			}
			return true
		}
		l, okl := g.LocOf(as)
		if !okl {
			return true
		}
		for _, ft := range g.FactsAt(l) {
			if ft.Val && mentionsCarrier(ft.Cond) {
				folded = true
			}
		}
		return true
	})
	c.Check(folded, rule, ef.Key+": anyAdded includes purged marks", ef.Pos(), m, "EndTransaction sends EndTxn when a purged partition had been added", "EndTransaction does not fold the purged-partition flag into anyAdded: the EndTxn is still skipped")
}
