package main

import (
	"fmt"
	"go/ast"
	"go/token"
	"go/types"
	"strings"

	"golang.org/x/tools/go/cfg"
)

func init() {
	register(&Prop{
		ID:        "C09",
		Level:     "other",
		Technique: "chain-shape rules in groupConsumer.commit (prior-done hand-over order, must-pass-through of the wait for the prior commit before the request is issued, deferred close), exactly-once counting of the completion callback through the commit entry points and their wrapper closures, lockset rule at commit's call sites, store rules in updateCommitted, who-may-write / stored-value-provenance rules (load-test-store with branch facts) for the commit tracking map",
		Explanation: "(1) commit chains through g.commitDone: the prior channel is read before the new one is stored, under g.mu at every call site; in the spawned goroutine the commit request (RequestWith) is issued only after the prior commit's done channel was received from whenever one exists - every path through the `priorDone != nil` arm passes a receive from priorDone and nothing else ends that wait; close(commitDone) is deferred first so it runs on every exit; the prior commit is never cancelled; " +
			"(2) the completion callback is invoked exactly once on every path of the commit goroutine, and CommitOffsets / CommitOffsetsSync / commitOffsetsSync complete exactly once (callback, or hand-over to commit / commitOffsetsSync); each wrapper closure (unblockAuto, unblockJoinSync, unblockCommits) calls the wrapped callback exactly once, so the join/sync read lock, syncCommitMu and blockAuto are released exactly once; " +
			"(3) updateCommitted(req, resp) precedes the successful callback; in it, for every partition answered without error, committed is stored unconditionally as {req LeaderEpoch, req Offset} (so CommittedOffsets equals the last successful commit, also for rewinds), head is only moved forward (head.Less(set)) and the entry is written back; responses from an older generation are ignored; " +
			"(4) the commit tracking map only grows outside revoke (c09_round4.go; updateCommitted skips partitions without an entry and CommittedOffsets reports exactly the entries, and fetchOffsets / polls / marks run in the middle of a cooperative or KIP-848 assignment): every store g.uncommitted[K] = M (type-resolved field groupConsumer.uncommitted) stores the local that was loaded from g.uncommitted[K] with the same key, under the branch fact that the loaded value was nil / absent, with no reassignment between load and test, and every other assignment of that local is a fresh map under that same fact; g.uncommitted = make(...) only under g.uncommitted == nil, g.uncommitted = nil only in revoke / abandonAssignment / manageFailWait / setupAssignedAndHeartbeat; delete / clear on the map or a per-topic map only in revoke.",
		NotDecided: "arrival order at the coordinator across connection failures and retries inside RequestWith; in rule (4) the key expression is compared textually (not proven unchanged between lookup and store), per-partition entry overwrites (M[p] = uncommit{...}) are not restricted, and which partitions revoke deletes is not checked.",
		Run:        runC09,
	})
	register(&Prop{
		ID:        "C08",
		Level:     "other",
		Technique: "constant-argument rule at the autocommit and default-revoke commit sources, who-may-write table with guard facts and stored-value classes for uncommit.head, dominance rules in PollRecords",
		Explanation: "(1) head-only commit: the autocommit loop takes its offsets with getUncommittedLocked(true, false) and the default revoke with getUncommitted(false) - both with the constant dirty == false, for every way of leaving or rebalancing; getUncommittedLocked returns head (not dirty) for dirty == false; " +
			"(2) writers of uncommit.head are exactly: updateUncommitted (only when autocommit is disabled or greedy; a first-seen partition starts with head unset), undirtyUncommitted (copy of dirty, at the start of the next poll, only under default autocommit), updateCommitted (only forward), applySetOffsets, MarkCommitRecords / MarkCommitOffsets (only forward) and fetchOffsets (the fetched committed offset); " +
			"(3) PollRecords calls undirtyUncommitted() before any fetch is taken (it dominates both fill() calls), and inside fill the returned fetches are recorded with updateUncommitted(realFetches) under c.mu before they are handed back; " +
			"(4) clause 2 of C07 (buffered fetches invalidated before the revoke commit) is checked there.",
		NotDecided: "the history-level at-least-once statement across members (needs a broker and schedules).",
		Run:        runC08,
	})
}

func runC09(c *Ctx) {
	m := c.Load("")
	if m == nil {
		return
	}
	f := c.NeedFunc(m, "kgo.groupConsumer.commit")
	if f == nil {
		return
	}
	info := f.Info()
	g := f.Graph()
	rule := "commit-chain"
	// prior read before new store
	var readLoc, storeLoc Loc
	h1, h2 := false, false
	ast.Inspect(f.Decl.Body, func(x ast.Node) bool {
		if _, ok := x.(*ast.FuncLit); ok {
			return false
		}
		as, ok := x.(*ast.AssignStmt)
		if !ok || len(as.Lhs) != 1 {
			return true
		}
		switch {
		case exprStr(as.Lhs[0]) == "priorDone" && nosp(exprStr(as.Rhs[0])) == "g.commitDone":
			readLoc, h1 = g.LocOf(as)
		case nosp(exprStr(as.Lhs[0])) == "g.commitDone" && exprStr(as.Rhs[0]) == "commitDone":
			storeLoc, h2 = g.LocOf(as)
		}
		return true
	})
	c.Check(h1 && h2 && g.Dominates(readLoc, storeLoc), rule, f.Key+"#hand-over", f.Pos(), m, "priorDone := g.commitDone before g.commitDone = commitDone", "the commit chain hand-over (read prior, then publish own done channel) is missing or reordered")
	// no unlock between (main body has no lock ops on g.mu)
	noUnlock := !containsNode(f.Decl.Body, false, func(y ast.Node) bool {
		call, ok := y.(*ast.CallExpr)
		if !ok {
			return false
		}
		p, _, ok := lockOp(f, call)
		return ok && p == "g.mu"
	})
	c.Check(noUnlock, rule, f.Key+"#under-caller-lock", f.Pos(), m, "", "commit releases or takes g.mu itself: the chain hand-over is no longer atomic with respect to other commits")
	// callers hold g.mu
	for _, site := range CallSites(m.FuncsIn("kgo"), f.Obj) {
		call := site.Node.(*ast.CallExpr)
		recv := canonPath(site.Fn, call.Fun.(*ast.SelectorExpr).X)
		env := newLockEnv(site.Fn, nil, nil)
		held, ok := env.HeldAtNode(call)
		c.Check(ok && held.Holds(recv+".mu", true), rule, site.Fn.Key+": g.commit (caller holds g.mu)", call.Pos(), m, "", "commit is called without "+recv+".mu held (must-lockset: "+held.String()+")")
	}
	// the goroutine
	var gor *ast.FuncLit
	ast.Inspect(f.Decl.Body, func(x ast.Node) bool {
		if gs, ok := x.(*ast.GoStmt); ok {
			if lit, ok := gs.Call.Fun.(*ast.FuncLit); ok && containsNode(lit.Body, false, func(y ast.Node) bool {
				call, ok := y.(*ast.CallExpr)
				return ok && nosp(exprStr(call.Fun)) == "req.RequestWith"
			}) {
				gor = lit
			}
		}
		return true
	})
	if gor == nil {
		c.Undecided(rule, f.Key+"#goroutine", f.Pos(), m, "commit goroutine not found")
		return
	}
	gg := f.LitGraph(gor)
	// deferred close first
	okDefer := false
	if len(gor.Body.List) > 0 {
		if d, ok := gor.Body.List[0].(*ast.DeferStmt); ok && nosp(exprStr(d.Call)) == "close(commitDone)" {
			okDefer = true
		}
	}
	c.Check(okDefer, rule, f.Key+"#close-deferred", gor.Pos(), m, "close(commitDone) runs on every exit", "close(commitDone) is not the first deferred call of the commit goroutine: a later commit can wait forever")
	// RequestWith after wait for priorDone
	var reqLoc Loc
	haveReq := false
	ast.Inspect(gor.Body, func(x ast.Node) bool {
		if call, ok := x.(*ast.CallExpr); ok && nosp(exprStr(call.Fun)) == "req.RequestWith" {
			reqLoc, haveReq = gg.LocOf(call)
		}
		return true
	})
	var ifPrior *ast.IfStmt
	ast.Inspect(gor.Body, func(x ast.Node) bool {
		if ifs, ok := x.(*ast.IfStmt); ok && nosp(exprStr(ifs.Cond)) == "priorDone!=nil" {
			ifPrior = ifs
		}
		return true
	})
	if ifPrior == nil || !haveReq {
		c.Fail(rule, f.Key+"#waits-for-prior", gor.Pos(), m, "the `priorDone != nil` wait before issuing the request was not found")
	} else {
		cl, _ := gg.LocOf(ifPrior.Cond)
		dom := gg.Dominates(cl, reqLoc)
		// from the true edge of the if: every path to leaving the if-body (or exiting) passes a receive from priorDone
		var thenBlk, doneBlk *cfg.Block
		for _, b := range gg.C.Blocks {
			if b.Stmt == ast.Stmt(ifPrior) {
				switch b.Kind {
				case cfg.KindIfThen:
					thenBlk = b
				case cfg.KindIfDone:
					doneBlk = b
				}
			}
		}
		isRecvStmt := func(n ast.Node) bool {
			es, ok := n.(*ast.ExprStmt)
			if !ok {
				return false
			}
			u, ok := es.X.(*ast.UnaryExpr)
			return ok && u.Op == token.ARROW && exprStr(u.X) == "priorDone" && !isSelectComm(f, es)
		}
		isRecvCase := func(b *cfg.Block) bool {
			if b.Kind != cfg.KindSelectCaseBody {
				return false
			}
			cc, ok := b.Stmt.(*ast.CommClause)
			if !ok || cc.Comm == nil {
				return false
			}
			es, ok := cc.Comm.(*ast.ExprStmt)
			if !ok {
				return false
			}
			u, ok := es.X.(*ast.UnaryExpr)
			return ok && u.Op == token.ARROW && exprStr(u.X) == "priorDone"
		}
		skip := true
		if thenBlk != nil && doneBlk != nil {
			_, skip = gg.FindPath(Loc{int(thenBlk.Index), -1}, SearchOpts{
				Stop:      isRecvStmt,
				StopBlock: isRecvCase,
				GoalBlock: func(b *cfg.Block) bool { return b == doneBlk },
				GoalExit:  func(ExitKind, ast.Node) bool { return true },
			})
			if isRecvCase(thenBlk) {
				skip = false
			}
		}
		c.Check(dom && !skip, rule, f.Key+"#waits-for-prior", ifPrior.Pos(), m, "the request is issued only after the prior commit finished",
			"the commit goroutine can issue its request (or finish and release the next commit) without having received from priorDone: commits can reach the coordinator out of order")
	}
	// the prior commit is never cancelled: no cancel func is stored on g
	okNoCancel := !containsNode(f.Decl.Body, true, func(y ast.Node) bool {
		as, ok := y.(*ast.AssignStmt)
		if !ok {
			return false
		}
		for _, l := range as.Lhs {
			if strings.HasPrefix(nosp(exprStr(l)), "g.") && strings.Contains(strings.ToLower(exprStr(l)), "cancel") {
				return true
			}
		}
		return false
	})
	c.Check(okNoCancel, rule, f.Key+"#prior-not-cancelled", f.Pos(), m, "", "a cancel function is stored on the group consumer: cancelling a prior in-flight commit kills its connection and lets commits reorder")
	// (2) onDone exactly once in goroutine
	rule2 := "commit-callback-exactly-once"
	spec := OnceSpec{Call: func(call *ast.CallExpr) Event {
		if id, ok := unparen(call.Fun).(*ast.Ident); ok && id.Name == "onDone" {
			return Event{Kind: EvOnce}
		}
		return Event{}
	}}
	onceRule(c, m, rule2, f, gor.Body, gg, f.Key+"#goroutine", spec, 3)
	// main body: empty arm `go onDone(...)` + return; otherwise spawns goroutine
	okEmpty := false
	ast.Inspect(f.Decl.Body, func(x ast.Node) bool {
		if _, isLit := x.(*ast.FuncLit); isLit {
			return false
		}
		ifs, ok := x.(*ast.IfStmt)
		if ok && nosp(exprStr(ifs.Cond)) == "len(uncommitted)==0" && len(ifs.Body.List) == 2 {
			if gs, ok := ifs.Body.List[0].(*ast.GoStmt); ok && exprStr(gs.Call.Fun) == "onDone" {
				if _, ok := ifs.Body.List[1].(*ast.ReturnStmt); ok {
					okEmpty = true
				}
			}
		}
		return true
	})
	c.Check(okEmpty, rule2, f.Key+"#empty-commit", f.Pos(), m, "an empty commit still completes (asynchronously)", "the empty-commit arm does not complete the callback")
	// success callback after updateCommitted
	var upLoc Loc
	haveUp := false
	ast.Inspect(gor.Body, func(x ast.Node) bool {
		if call, ok := x.(*ast.CallExpr); ok && calleeName(info, call) == "kgo.groupConsumer.updateCommitted" {
			if isDeferred(f, call) {
				c.Fail("committed-updated-before-callback", f.Key+": deferred updateCommitted", call.Pos(), m, "updateCommitted is deferred: it runs after the callback")
				return true
			}
			upLoc, haveUp = gg.LocOf(call)
			c.Check(len(call.Args) == 2 && exprStr(call.Args[0]) == "req" && exprStr(call.Args[1]) == "resp", "committed-updated-before-callback", f.Key+": "+exprStr(call), call.Pos(), m, "", "updateCommitted is not given (req, resp)")
		}
		return true
	})
	nSucc := 0
	ast.Inspect(gor.Body, func(x ast.Node) bool {
		call, ok := x.(*ast.CallExpr)
		if !ok || exprStr(call.Fun) != "onDone" || len(call.Args) != 4 || exprStr(call.Args[3]) != "nil" || exprStr(call.Args[2]) != "resp" {
			return true
		}
		nSucc++
		l, _ := gg.LocOf(call)
		c.Check(haveUp && gg.Dominates(upLoc, l), "committed-updated-before-callback", f.Key+": onDone(resp, nil)", call.Pos(), m, "CommittedOffsets reflects the commit when the callback runs", "the successful callback runs before updateCommitted")
		return true
	})
	c.Check(nSucc == 1, "committed-updated-before-callback", f.Key+"#success-callback", gor.Pos(), m, "", "successful callback not found")
	// entry points
	for _, key := range []string{"kgo.Client.CommitOffsets", "kgo.Client.CommitOffsetsSync", "kgo.groupConsumer.commitOffsetsSync"} {
		ef := c.NeedFunc(m, key)
		if ef == nil {
			continue
		}
		einfo := ef.Info()
		spec := OnceSpec{Call: func(call *ast.CallExpr) Event {
			if id, ok := unparen(call.Fun).(*ast.Ident); ok && id.Name == "onDone" {
				return Event{Kind: EvOnce}
			}
			switch calleeName(einfo, call) {
			case "kgo.groupConsumer.commit", "kgo.groupConsumer.commitOffsetsSync":
				return Event{Kind: EvOnce}
			}
			return Event{}
		}}
		onceRule(c, m, rule2, ef, ef.Decl.Body, ef.Graph(), key, spec, 2)
		// wrapper closures call the wrapped callback exactly once
		ast.Inspect(ef.Decl.Body, func(x ast.Node) bool {
			as, ok := x.(*ast.AssignStmt)
			if !ok || len(as.Lhs) != 1 || len(as.Rhs) != 1 {
				return true
			}
			lit, ok := as.Rhs[0].(*ast.FuncLit)
			if !ok || len(lit.Type.Params.List) < 3 {
				return true
			}
			name := exprStr(as.Lhs[0])
			if name == "onDone" {
				return true
			}
			wspec := OnceSpec{Call: func(call *ast.CallExpr) Event {
				if id, ok := unparen(call.Fun).(*ast.Ident); ok && (id.Name == "onDone" || id.Name == "unblockCommits" || id.Name == "unblockJoinSync") && len(call.Args) == 4 {
					return Event{Kind: EvOnce}
				}
				return Event{}
			}}
			onceRule(c, m, rule2, ef, lit.Body, ef.LitGraph(lit), key+"#wrapper:"+name, wspec, 1)
			return true
		})
		// the wrapper handed to commit is the outermost one
		for _, call := range callsNamed(ef.Decl.Body, einfo, "commit", false) {
			if calleeName(einfo, call) == "kgo.groupConsumer.commit" {
				c.Check(len(call.Args) == 3 && exprStr(call.Args[2]) == "unblockAuto", rule2, key+": g.commit(..., unblockAuto)", call.Pos(), m, "", "commit is not given the outermost wrapper (locks / blockAuto would not be released)")
			}
		}
	}
	// a commit is reported successful without being sent only when it is empty
	for _, key := range []string{"kgo.Client.CommitOffsets", "kgo.Client.CommitOffsetsSync", "kgo.groupConsumer.commitOffsetsSync", "kgo.groupConsumer.commit"} {
		ef := c.NeedFunc(m, key)
		if ef == nil {
			continue
		}
		k := 0
		ast.Inspect(ef.Decl.Body, func(x ast.Node) bool {
			if lit, isLit := x.(*ast.FuncLit); isLit {
				// wrapper closures forward the real result; the spawned commit goroutine reports the response
				_ = lit
				return false
			}
			call, ok := x.(*ast.CallExpr)
			if !ok || exprStr(call.Fun) != "onDone" || len(call.Args) != 4 {
				return true
			}
			if exprStr(call.Args[3]) != "nil" {
				return true // an error is reported: nothing claimed
			}
			k++
			eg := ef.Graph()
			l, okl := eg.LocOf(call)
			if !okl {
				if st := enclosingStmt(ef.Decl.Body, call); st != nil {
					l, okl = eg.LocOf(st)
				}
			}
			empty := okl && factMatches(eg.FactsAt(l), func(ft Fact) bool { return ft.Val && nosp(exprStr(ft.Cond)) == "len(uncommitted)==0" })
			c.Check(empty, "commit-success-only-if-sent", key+": onDone(..., nil) without a request#"+ordinal(&k), call.Pos(), m, "only for an empty commit", "a commit is reported successful without being sent although it is not empty: a later commit that rewinds (or equals the cached committed offsets while an earlier commit is still in flight) is dropped, so the coordinator does not end at the last successful commit")
			return true
		})
	}
	// the synchronous helpers report every per-partition error of the response
	nErrIf := 0
	for _, key := range []string{"kgo.Client.CommitRecords", "kgo.Client.commitOffsets"} {
		hf := c.NeedFunc(m, key)
		if hf == nil {
			continue
		}
		ast.Inspect(hf.Decl.Body, func(x ast.Node) bool {
			ifs, ok := x.(*ast.IfStmt)
			if !ok || ifs.Init == nil {
				return true
			}
			as, ok := ifs.Init.(*ast.AssignStmt)
			if !ok || len(as.Rhs) != 1 {
				return true
			}
			call, ok := as.Rhs[0].(*ast.CallExpr)
			if !ok || calleeName(hf.Info(), call) != "kerr.ErrorForCode" {
				return true
			}
			nErrIf++
			v := exprStr(as.Lhs[0])
			atoms := decompose(ifs.Cond, true, nil)
			plain := len(atoms) == 1 && atoms[0].Val && nosp(exprStr(atoms[0].Cond)) == v+"!=nil"
			stores := containsNode(ifs.Body, false, func(y ast.Node) bool {
				a2, ok := y.(*ast.AssignStmt)
				return ok && len(a2.Rhs) == 1 && exprStr(a2.Rhs[0]) == v
			}) || containsNode(ifs.Body, false, func(y ast.Node) bool {
				r, ok := y.(*ast.ReturnStmt)
				return ok && len(r.Results) == 1 && exprStr(r.Results[0]) == v
			})
			c.Check(plain && stores, "commit-errors-reported", key+": partition error -> returned error#"+ordinal(&nErrIf), ifs.Pos(), m, "every non-zero partition error code is returned", "a per-partition commit error is reported only under `"+nosp(exprStr(ifs.Cond))+"`: the synchronous commit returns nil although the coordinator rejected the commit (retriable errors that outlast the retries, errors on later partitions), so the caller believes offsets are committed that are not")
			return true
		})
	}
	c.Floor("commit-errors-reported/partition-error-tests", nErrIf, 2)
	// (3) updateCommitted stores
	if uf := c.NeedFunc(m, "kgo.groupConsumer.updateCommitted"); uf != nil {
		ug := uf.Graph()
		rule3 := "committed-equals-last-successful-commit"
		nC := 0
		ast.Inspect(uf.Decl.Body, func(x ast.Node) bool {
			as, ok := x.(*ast.AssignStmt)
			if !ok || len(as.Lhs) != 1 {
				return true
			}
			l, okl := ug.LocOf(as)
			if !okl {
				return true
			}
			switch nosp(exprStr(as.Lhs[0])) {
			case "uncommit.committed":
				nC++
				var bad []string
				for _, ft := range ug.FactsAt(l) {
					s := nosp(exprStr(ft.Cond))
					if strings.Contains(s, "Less(") || strings.Contains(s, ".committed") || strings.Contains(s, "set.") {
						bad = append(bad, s)
					}
				}
				noErr := factMatches(ug.FactsAt(l), func(ft Fact) bool { return !ft.Val && nosp(exprStr(ft.Cond)) == "respPart.ErrorCode!=0" })
				c.Check(len(bad) == 0 && noErr && exprStr(as.Rhs[0]) == "set", rule3, uf.Key+": uncommit.committed = set", as.Pos(), m, "stored unconditionally for every successfully committed partition", "the committed offset is stored only under "+strings.Join(bad, ", ")+": after a lower (rewinding or lower-epoch) successful commit CommittedOffsets keeps the old maximum")
			case "uncommit.head":
				fwd := factMatches(ug.FactsAt(l), func(ft Fact) bool { return ft.Val && nosp(exprStr(ft.Cond)) == "uncommit.head.Less(set)" })
				c.Check(fwd && exprStr(as.Rhs[0]) == "set", rule3, uf.Key+": uncommit.head = set", as.Pos(), m, "head only forward", "head is moved by a commit response without the forward-only test")
			}
			return true
		})
		c.Check(nC == 1, rule3, uf.Key+"#store", uf.Pos(), m, "", "store of the committed offset not found")
		body := nows(stripComments(printNode(m.Fset, uf.Decl.Body)))
		c.Check(strings.Contains(body, "set:=EpochOffset{reqPart.LeaderEpoch,reqPart.Offset,}"), rule3, uf.Key+"#value", uf.Pos(), m, "the request's epoch and offset", "the stored commit is not {reqPart.LeaderEpoch, reqPart.Offset}")
		c.Check(strings.Contains(body, "topic[respPart.Partition]=uncommit"), rule3, uf.Key+"#write-back", uf.Pos(), m, "", "the updated entry is not written back")
		c.Check(strings.Contains(body, "ifreq.Generation!=g.memberGen.generation(){return}"), rule3, uf.Key+"#generation", uf.Pos(), m, "", "responses of an older generation are not ignored")
	}
	if cf := c.NeedFunc(m, "kgo.Client.CommittedOffsets"); cf != nil {
		body := nows(printNode(m.Fset, cf.Decl.Body))
		c.Check(strings.Contains(body, "getUncommittedLocked(false,false)"), "committed-equals-last-successful-commit", cf.Key, cf.Pos(), m, "reports the committed field", "CommittedOffsets does not report the committed offsets")
	}
	c09tracking(c, m) // c09_round4.go
}

func runC08(c *Ctx) {
	m := c.Load("")
	if m == nil {
		return
	}
	c08discard(c, m)
	c08partialTake(c, m)
	c08fetchBuffers(c, m)
	rule := "autocommit-commits-head-only"
	if f := c.NeedFunc(m, "kgo.groupConsumer.loopCommit"); f != nil {
		n := 0
		for _, call := range callsNamed(f.Decl.Body, f.Info(), "getUncommittedLocked", true) {
			n++
			a, ok1 := constBool(f.Info(), call.Args[0])
			b, ok2 := constBool(f.Info(), call.Args[1])
			c.Check(ok1 && ok2 && a && !b, rule, f.Key+": "+exprStr(call), call.Pos(), m, "head, not dirty", "the autocommit loop does not commit with (head=true, dirty=false)")
		}
		c.Check(n == 1, rule, f.Key+"#source", f.Pos(), m, "", "autocommit offsets source not found")
		// what is committed is what was read
		ok := false
		ast.Inspect(f.Decl.Body, func(x ast.Node) bool {
			if call, ok2 := x.(*ast.CallExpr); ok2 && calleeName(f.Info(), call) == "kgo.groupConsumer.commit" && len(call.Args) == 3 && exprStr(call.Args[1]) == "uncommitted" {
				ok = true
			}
			return true
		})
		c.Check(ok, rule, f.Key+"#commits-what-it-read", f.Pos(), m, "", "the autocommit loop does not commit the offsets it read")
	}
	if f := c.NeedFunc(m, "kgo.groupConsumer.defaultRevoke"); f != nil {
		n := 0
		for _, call := range callsNamed(f.Decl.Body, f.Info(), "getUncommitted", true) {
			n++
			v, ok := constBool(f.Info(), call.Args[0])
			c.Check(ok && !v, rule, f.Key+": "+exprStr(call), call.Pos(), m, "head, not dirty, on every revoke and leave", "the default revoke commits `getUncommitted("+exprStr(call.Args[0])+")`: it can commit the dirty offsets of a poll the application has not finished (records are skipped for the next owner)")
		}
		c.Check(n == 1, rule, f.Key+"#source", f.Pos(), m, "", "default revoke offsets source not found")
	}
	if f := c.NeedFunc(m, "kgo.groupConsumer.getUncommittedLocked"); f != nil {
		body := nows(printNode(m.Fset, f.Decl.Body))
		ok := strings.Contains(body, "ifhead{ifdirty{topicUncommitted[partition]=uncommit.dirty}else{topicUncommitted[partition]=uncommit.head}}else{topicUncommitted[partition]=uncommit.committed}")
		c.Check(ok, rule, f.Key, f.Pos(), m, "dirty==false yields head", "getUncommittedLocked no longer returns head for (head, !dirty)")
	}
	if f := c.NeedFunc(m, "kgo.groupConsumer.getUncommitted"); f != nil {
		body := nows(printNode(m.Fset, f.Decl.Body))
		c.Check(strings.Contains(body, "returng.getUncommittedLocked(true,dirty)"), rule, f.Key, f.Pos(), m, "", "getUncommitted does not pass its dirty flag through")
	}
	// (2) head writers
	rule2 := "head-writers"
	hv := fieldMust(c, m, "uncommit", "head")
	if hv != nil {
		n := 0
		for _, st := range StoreSites(m.FuncsIn("kgo"), hv) {
			n++
			c.Touch(st.Fn)
			cons := st.Fn.Key + ": " + nodeStr(st.Node)
			g := st.Fn.GraphFor(st.Node)
			l, okl := g.LocOf(st.Node)
			var facts []Fact
			if okl {
				facts = g.FactsAt(l)
			}
			rhs := nosp(exprStr(st.RHS))
			switch st.Fn.Key {
			case "kgo.groupConsumer.updateUncommitted":
				if st.Kind == "complit" {
					c.Check(rhs == "uninit", rule2, cons+" (new entry)", st.Node.Pos(), m, "a first-seen partition starts with head unset", "a partition's first poll sets head = "+rhs+": its records become committable without a following poll")
				} else {
					under := factMatches(facts, func(ft Fact) bool { id, ok := ft.Cond.(*ast.Ident); return ok && id.Name == "setHead" && ft.Val })
					def := ""
					if fn := st.Fn; fn != nil {
						ast.Inspect(fn.Decl.Body, func(x ast.Node) bool {
							if as, ok := x.(*ast.AssignStmt); ok && len(as.Lhs) == 1 && exprStr(as.Lhs[0]) == "setHead" {
								def = nosp(exprStr(as.Rhs[0]))
							}
							return true
						})
					}
					c.Check(under && def == "g.cfg.autocommitDisable||g.cfg.autocommitGreedy" && st.Kind == "assign", rule2, cons, st.Node.Pos(), m, "only when autocommit is disabled or greedy", "head is advanced at poll time under default autocommit (setHead = "+def+")")
				}
			case "kgo.groupConsumer.undirtyUncommitted":
				c.Check(rhs == "uncommit.dirty", rule2, cons, st.Node.Pos(), m, "head = dirty at the start of the next poll", "undirty stores "+rhs)
			case "kgo.groupConsumer.updateCommitted":
				// checked in C09
				c.OK(rule2, cons, st.Node.Pos(), m, "forward-only (see C09)")
			case "kgo.groupConsumer.applySetOffsets", "kgo.groupConsumer.fetchOffsets":
				c.OK(rule2, cons, st.Node.Pos(), m, "explicit reset / fetched committed offset")
			case "kgo.Client.MarkCommitRecords", "kgo.Client.MarkCommitOffsets":
				fwd := factMatches(facts, func(ft Fact) bool {
					return ft.Val && strings.Contains(nosp(exprStr(ft.Cond)), "current.head.Less(newHead)")
				})
				c.Check(fwd && rhs == "newHead", rule2, cons, st.Node.Pos(), m, "marks only move head forward", "a mark can move head without the forward test")
			default:
				c.Fail(rule2, cons, st.Node.Pos(), m, "uncommit.head is written by a function outside the confirmed table")
			}
		}
		c.Floor(rule2, n, 7)
	}
	if f := c.NeedFunc(m, "kgo.groupConsumer.undirtyUncommitted"); f != nil {
		body := nows(stripComments(printNode(m.Fset, f.Decl.Body)))
		ok := strings.Contains(body, "ifg.cfg.autocommitDisable{return}") && strings.Contains(body, "ifg.cfg.autocommitGreedy{return}") && strings.Contains(body, "ifg.cfg.autocommitMarks{return}")
		c.Check(ok, rule2, f.Key+"#modes", f.Pos(), m, "", "undirty no longer exempts the disabled / greedy / marks modes")
	}
	// (3) PollRecords
	rule3 := "poll-ordering"
	if f := c.NeedFunc(m, "kgo.Client.PollRecords"); f != nil {
		g := f.Graph()
		var ud Loc
		have := false
		ast.Inspect(f.Decl.Body, func(x ast.Node) bool {
			if _, isLit := x.(*ast.FuncLit); isLit {
				return false
			}
			if call, ok := x.(*ast.CallExpr); ok && nosp(exprStr(call.Fun)) == "c.g.undirtyUncommitted" && !isDeferred(f, call) {
				ud, have = g.LocOf(call)
			}
			return true
		})
		n := 0
		ast.Inspect(f.Decl.Body, func(x ast.Node) bool {
			call, ok := x.(*ast.CallExpr)
			if !ok || exprStr(call.Fun) != "fill" {
				return true
			}
			n++
			// calls inside the goroutine literal are after by construction if the go statement is dominated
			var l Loc
			if lit := innermostLit(f, call); lit != nil {
				l, _ = g.LocOf(lit)
			} else {
				l, _ = g.LocOf(call)
			}
			c.Check(have && g.Dominates(ud, l), rule3, fmt.Sprintf("%s: fill()#%d", f.Key, n), call.Pos(), m, "undirty before any fetch is taken", "fill() can run before undirtyUncommitted(): the previous poll's records are not promoted to head before new ones are returned")
			return true
		})
		c.Floor(rule3, n, 2)
		// inside fill: updateUncommitted(realFetches) under c.mu
		var fillLit *ast.FuncLit
		ast.Inspect(f.Decl.Body, func(x ast.Node) bool {
			if as, ok := x.(*ast.AssignStmt); ok && len(as.Lhs) == 1 && exprStr(as.Lhs[0]) == "fill" {
				fillLit, _ = as.Rhs[0].(*ast.FuncLit)
			}
			return true
		})
		if fillLit == nil {
			c.Fail(rule3, f.Key+"#fill", f.Pos(), m, "fill closure not found")
		} else {
			fg := f.LitGraph(fillLit)
			li := computeLocksHook(f, fillLit.Body, fg, LockSet{}, nil)
			ok := false
			ast.Inspect(fillLit.Body, func(x ast.Node) bool {
				if call, isCall := x.(*ast.CallExpr); isCall && nosp(exprStr(call.Fun)) == "c.g.updateUncommitted" && len(call.Args) == 1 && exprStr(call.Args[0]) == "realFetches" {
					l, _ := fg.LocOf(call)
					ok = heldAtHook(li, l, nil).Holds("cl.consumer.mu", true)
				}
				return true
			})
			c.Check(ok, rule3, f.Key+"#record-returned-fetches", fillLit.Pos(), m, "returned fetches are recorded as uncommitted under c.mu", "fill does not record the fetches it returns with updateUncommitted(realFetches) under c.mu")
		}
	}
}

// isDeferred reports whether the call is the call of a defer statement (it
// then runs at function exit, not where it is written).
func isDeferred(f *Func, call *ast.CallExpr) bool {
	found := false
	ast.Inspect(f.Decl.Body, func(x ast.Node) bool {
		if d, ok := x.(*ast.DeferStmt); ok && d.Call == call {
			found = true
		}
		return !found
	})
	return found
}

// c08discard: two ways a record can be skipped without any member having been
// handed it, or committed without a following poll:
// (a) a buffered fetch that is thrown away (session stop: rebalance, leave)
// must re-enable its cursors WITHOUT advancing them (finishUsingAll); only
// the take paths that hand the records to the application advance the cursor;
// (b) inside Client.close no poll runs before the group is left: a poll marks
// the previously returned records as processed (undirtyUncommitted), and the
// leave's revoke commit would then cover records the application never
// confirmed by polling again.
func c08discard(c *Ctx, m *Module) {
	if f := c.NeedFunc(m, "kgo.source.discardBuffered"); f != nil {
		info := f.Info()
		all := m.Method("kgo", "usedOffsets", "finishUsingAll")
		n := 0
		for _, call := range callsNamed(f.Decl.Body, info, "takeBufferedFn", false) {
			n++
			ok := false
			if len(call.Args) == 2 {
				if sel, isSel := unparen(call.Args[1]).(*ast.SelectorExpr); isSel && all != nil && info.Uses[sel.Sel] == types.Object(all) {
					ok = true
				}
			}
			c.Check(ok, "discard-keeps-cursor", f.Key+": takeBufferedFn(_, usedOffsets.finishUsingAll)", call.Pos(), m, "discarded records do not move the cursor", "a discarded (never polled) buffered fetch advances its cursors: after a cooperative rebalance the partitions the member keeps skip records that no member was ever handed, and later commits move past them")
		}
		c.Check(n == 1, "discard-keeps-cursor", f.Key+"#call", f.Pos(), m, "", "discardBuffered does not call takeBufferedFn exactly once")
	}
	if f := c.NeedFunc(m, "kgo.Client.close"); f != nil {
		info := f.Info()
		g := f.Graph()
		var leave []Loc
		for _, call := range callsNamed(f.Decl.Body, info, "LeaveGroupContext", false) {
			if l, ok := g.LocOf(call); ok {
				leave = append(leave, l)
			}
		}
		c.Check(len(leave) >= 1, "no-poll-before-leave", f.Key+"#leave", f.Pos(), m, "", "Client.close does not leave the group")
		k := 0
		for _, name := range []string{"PollFetches", "PollRecords"} {
			for _, call := range callsNamed(f.Decl.Body, info, name, false) {
				l, ok := g.LocOf(call)
				bad := !ok
				for _, ll := range leave {
					if ok && g.reachFwd(l, ll) {
						bad = true
					}
				}
				c.Check(!bad, "no-poll-before-leave", f.Key+": "+name+" only after the group was left#"+ordinal(&k), call.Pos(), m, "", "Client.close polls before leaving the group: the internal poll marks the application's last returned batch as processed (dirty -> head) although the application never polled again, and the leave's revoke commits it")
			}
		}
	}
}

// c08partialTake: after a partial take (PollRecords with a limit) the cursor
// is set to one past the last record that was RETURNED (the prefix handed to
// the caller), not past the records still buffered: if the rest of the buffered
// fetch is discarded later (cooperative rebalance), fetching resumes at the
// cursor and nothing that was never handed out may lie below it.
func c08partialTake(c *Ctx, m *Module) {
	rule := "partial-take-cursor-from-returned-records"
	f := c.NeedFunc(m, "kgo.source.takeNBuffered")
	if f == nil {
		return
	}
	info := f.Info()
	// the returned-prefix holder: X in `X.Records = Y.Records[:take...]`
	var holder types.Object
	ast.Inspect(f.Decl.Body, func(x ast.Node) bool {
		as, ok := x.(*ast.AssignStmt)
		if !ok || len(as.Lhs) != 1 || len(as.Rhs) != 1 {
			return true
		}
		sel, ok := as.Lhs[0].(*ast.SelectorExpr)
		if !ok || sel.Sel.Name != "Records" {
			return true
		}
		sl, ok := as.Rhs[0].(*ast.SliceExpr)
		if !ok || sl.Low != nil || sl.High == nil {
			return true
		}
		if id, ok := sel.X.(*ast.Ident); ok {
			holder = info.Uses[id]
		}
		return true
	})
	if holder == nil {
		c.Undecided(rule, f.Key+"#returned prefix", f.Pos(), m, "the assignment of the returned record prefix (X.Records = Y.Records[:take]) was not found")
		return
	}
	// the setOffset literal with offset: L.Offset + 1
	n := 0
	ast.Inspect(f.Decl.Body, func(x ast.Node) bool {
		kv, ok := x.(*ast.KeyValueExpr)
		if !ok || exprStr(kv.Key) != "offset" {
			return true
		}
		be, ok := unparen(kv.Value).(*ast.BinaryExpr)
		if !ok || be.Op != token.ADD || exprStr(be.Y) != "1" {
			return true
		}
		sel, ok := unparen(be.X).(*ast.SelectorExpr)
		if !ok || sel.Sel.Name != "Offset" {
			return true
		}
		n++
		good := false
		if id, ok := sel.X.(*ast.Ident); ok {
			if d := singleDef(f, info.Uses[id]); d != nil {
				// d == H.Records[len(H.Records)-1] with H the holder
				if ix, ok := unparen(d).(*ast.IndexExpr); ok {
					if rsel, ok := ix.X.(*ast.SelectorExpr); ok && rsel.Sel.Name == "Records" {
						if hid, ok := rsel.X.(*ast.Ident); ok && info.Uses[hid] == holder && nosp(exprStr(ix.Index)) == "len("+nosp(exprStr(ix.X))+")-1" {
							good = true
						}
					}
				}
			}
		}
		c.Check(good, rule, f.Key+": cursor offset after a partial take", kv.Pos(), m, "last returned record + 1", "the cursor is not set to one past the last record of the returned prefix: it lands past records that are still buffered; if the remainder is discarded (cooperative rebalance keeps the partition) those records are never returned to anyone and later commits pass over them")
		return true
	})
	c.Check(n == 1, rule, f.Key+"#site", f.Pos(), m, "", "partial-take setOffset literal not found")
}

// c08fetchBuffers: once a fetch response was processed and its offsets are to
// be kept (setOffsets = true), a response that has records is always buffered
// before fetch returns: the deferred cleanup advances the cursors of anything
// not buffered, so returning with records neither buffered nor rewound skips
// them for good.
func c08fetchBuffers(c *Ctx, m *Module) {
	rule := "processed-records-are-buffered"
	f := c.NeedFunc(m, "kgo.source.fetch")
	if f == nil {
		return
	}
	info := f.Info()
	g := f.Graph()
	buf := m.Field("kgo", "source", "buffered")
	var has *ast.IfStmt
	for _, st := range f.Decl.Body.List {
		if ifs, ok := st.(*ast.IfStmt); ok && strings.HasSuffix(nosp(exprStr(ifs.Cond)), ".hasErrorsOrRecords()") {
			has = ifs
		}
	}
	if has == nil {
		c.Undecided(rule, f.Key+"#hasErrorsOrRecords", f.Pos(), m, "the `if fetch.hasErrorsOrRecords()` statement was not found at the top level of fetch")
		return
	}
	isBuffer := func(n ast.Node) bool {
		as, ok := n.(*ast.AssignStmt)
		return ok && len(storesTo(as, info, buf, false)) > 0
	}
	path, found := armMustPass(g, has, isBuffer)
	c.Check(!found, rule, f.Key+": a response with records is buffered", has.Pos(), m, "s.buffered is stored on every path of the has-records arm", "fetch can leave the has-records arm without buffering the response ("+pathStr(path)+"): the offsets of the processed response are kept (setOffsets) by the deferred cleanup, so its records are skipped without ever being returned")
	// and setOffsets = true dominates that arm
	var set Loc
	haveSet := false
	ast.Inspect(f.Decl.Body, func(x ast.Node) bool {
		if as, ok := x.(*ast.AssignStmt); ok && len(as.Lhs) == 1 && exprStr(as.Lhs[0]) == "setOffsets" && exprStr(as.Rhs[0]) == "true" {
			if innermostLit(f, as) == nil {
				set, haveSet = g.LocOf(as)
			}
		}
		return true
	})
	hl, _ := g.LocOf(has.Cond)
	c.Check(haveSet && g.Dominates(set, hl), rule, f.Key+": setOffsets = true precedes the buffering decision", has.Pos(), m, "", "setOffsets = true not found before the buffering decision")
}
