package main

import (
	"fmt"
	"go/ast"
	"go/types"
)

// intersectDBC keeps the constraints present in both sets (weakest bound).
func intersectDBC(a, b []dbc) []dbc {
	var out []dbc
	for _, x := range a {
		for _, y := range b {
			if x.x == y.x && x.y == y.y && (len(x.why) < 4 || x.why[:4] != "NEQ:") && (len(y.why) < 4 || y.why[:4] != "NEQ:") {
				c := x.c
				if y.c < c {
					c = y.c
				}
				out = append(out, dbc{x.x, x.y, c, x.why})
				break
			}
		}
	}
	return out
}

// boundsRule proves every index/slice expression (and length-requiring call)
// in the listed functions, including their function literals, and records one
// obligation per sink.  exempt maps "funcKey: expr" to a reason; exempted
// sinks are recorded as discharged with the reason (each must match a sink).
func boundsRule(c *Ctx, m *Module, rule string, keys []string, sums map[string]calleeSummary, exempt map[string]string) int {
	return boundsRuleX(c, m, rule, keys, sums, exempt, -1)
}

// boundsRuleX additionally proves make() sizes when allocMax >= 0.
func boundsRuleX(c *Ctx, m *Module, rule string, keys []string, sums map[string]calleeSummary, exempt map[string]string, allocMax int64) int {
	return boundsRuleO(c, m, rule, keys, BoundsOpts{Sums: sums}, exempt, allocMax)
}

// closureCallSites returns the calls of the local variable a function
// literal is bound to (v := func.. / var v = func..), or nil.
func closureCallSites(f *Func, lit *ast.FuncLit) []*ast.CallExpr {
	var obj types.Object
	ast.Inspect(f.Decl.Body, func(x ast.Node) bool {
		switch s := x.(type) {
		case *ast.AssignStmt:
			for i, r := range s.Rhs {
				if r == ast.Expr(lit) && i < len(s.Lhs) {
					if id, ok := s.Lhs[i].(*ast.Ident); ok {
						obj = f.Info().Defs[id]
						if obj == nil {
							obj = f.Info().Uses[id]
						}
					}
				}
			}
		case *ast.ValueSpec:
			for i, r := range s.Values {
				if r == ast.Expr(lit) && i < len(s.Names) {
					obj = f.Info().Defs[s.Names[i]]
				}
			}
		}
		return true
	})
	if obj == nil {
		return nil
	}
	// the variable must not be reassigned or escape: every use is a call
	var calls []*ast.CallExpr
	escaped := false
	ast.Inspect(f.Decl.Body, func(x ast.Node) bool {
		if call, ok := x.(*ast.CallExpr); ok {
			if id, ok := unparen(call.Fun).(*ast.Ident); ok && f.Info().Uses[id] == obj {
				calls = append(calls, call)
			}
		}
		return true
	})
	nUses := 0
	ast.Inspect(f.Decl.Body, func(x ast.Node) bool {
		if id, ok := x.(*ast.Ident); ok && f.Info().Uses[id] == obj {
			nUses++
		}
		return true
	})
	if nUses != len(calls) {
		escaped = true
	}
	if escaped {
		return nil
	}
	return calls
}

func boundsRuleO(c *Ctx, m *Module, rule string, keys []string, opts BoundsOpts, exempt map[string]string, allocMax int64) int {
	sums := opts.Sums
	total := 0
	usedExempt := map[string]bool{}
	for _, k := range keys {
		f := c.NeedFunc(m, k)
		if f == nil {
			continue
		}
		bodies := []*ast.BlockStmt{f.Decl.Body}
		graphs := []*Graph{f.Graph()}
		entries := [][]dbc{nil}
		ast.Inspect(f.Decl.Body, func(x ast.Node) bool {
			if l, ok := x.(*ast.FuncLit); ok {
				bodies = append(bodies, l.Body)
				graphs = append(graphs, f.LitGraph(l))
				// facts inherited from the closure's call sites (all in the function's own body)
				var entry []dbc
				if innermostLit(f, l) == nil {
					sites := closureCallSites(f, l)
					for i, call := range sites {
						if innermostLit(f, call) != nil {
							entry = nil
							break
						}
						cs, ok := FactsAtCall(f, f.Decl.Body, f.Graph(), opts, call)
						if !ok {
							entry = nil
							break
						}
						if i == 0 {
							entry = cs
						} else {
							entry = intersectDBC(entry, cs)
						}
					}
				}
				entries = append(entries, entry)
			}
			return true
		})
		seen := map[string]int{}
		for i, body := range bodies {
			o := opts
			o.Sums = sums
			o.Entry = entries[i]
			sinks := BoundsCheck(f, body, graphs[i], o, nil)
			if allocMax >= 0 {
				sinks = append(sinks, AllocCheck(f, body, graphs[i], o, allocMax)...)
			}
			for _, s := range sinks {
				cons := k + ": " + s.Desc
				seen[cons]++
				if seen[cons] > 1 {
					cons = fmt.Sprintf("%s #%d", cons, seen[cons])
				}
				total++
				if s.OK {
					c.OK(rule, cons, s.Node.Pos(), m, "in bounds on every path")
					continue
				}
				if why, ok := exempt[cons]; ok {
					usedExempt[cons] = true
					c.OK(rule, cons, s.Node.Pos(), m, "exempt: "+why)
					continue
				}
				c.Fail(rule, cons, s.Node.Pos(), m, s.Why)
			}
		}
	}
	for k := range exempt {
		if !usedExempt[k] {
			c.Undecided(rule, k, 0, m, "exemption matches no unproven sink (stale table entry)")
		}
	}
	return total
}
