package main

import (
	"fmt"
	"go/ast"
)

// boundsRule proves every index/slice expression (and length-requiring call)
// in the listed functions, including their function literals, and records one
// obligation per sink.  exempt maps "funcKey: expr" to a reason; exempted
// sinks are recorded as discharged with the reason (each must match a sink).
func boundsRule(c *Ctx, m *Module, rule string, keys []string, sums map[string]calleeSummary, exempt map[string]string) int {
	return boundsRuleX(c, m, rule, keys, sums, exempt, -1)
}

// boundsRuleX additionally proves make() sizes when allocMax >= 0.
func boundsRuleX(c *Ctx, m *Module, rule string, keys []string, sums map[string]calleeSummary, exempt map[string]string, allocMax int64) int {
	total := 0
	usedExempt := map[string]bool{}
	for _, k := range keys {
		f := c.NeedFunc(m, k)
		if f == nil {
			continue
		}
		bodies := []*ast.BlockStmt{f.Decl.Body}
		graphs := []*Graph{f.Graph()}
		ast.Inspect(f.Decl.Body, func(x ast.Node) bool {
			if l, ok := x.(*ast.FuncLit); ok {
				bodies = append(bodies, l.Body)
				graphs = append(graphs, f.LitGraph(l))
			}
			return true
		})
		seen := map[string]int{}
		for i, body := range bodies {
			sinks := BoundsCheck(f, body, graphs[i], sums, nil)
			if allocMax >= 0 {
				sinks = append(sinks, AllocCheck(f, body, graphs[i], sums, allocMax)...)
			}
			for _, s := range sinks {
				cons := k + ": " + s.Desc
				seen[cons]++
				if seen[cons] > 1 {
					cons = fmt.Sprintf("%s #%d", cons, seen[cons])
				}
				total++
				if s.OK {
					c.OK(rule, cons, s.Node.Pos(), m, "in bounds on every path")
					continue
				}
				if why, ok := exempt[cons]; ok {
					usedExempt[cons] = true
					c.OK(rule, cons, s.Node.Pos(), m, "exempt: "+why)
					continue
				}
				c.Fail(rule, cons, s.Node.Pos(), m, s.Why)
			}
		}
	}
	for k := range exempt {
		if !usedExempt[k] {
			c.Undecided(rule, k, 0, m, "exemption matches no unproven sink (stale table entry)")
		}
	}
	return total
}
