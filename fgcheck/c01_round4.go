package main

import (
	"fmt"
	"go/ast"
	"go/token"
	"go/types"
	"sort"

	"golang.org/x/tools/go/cfg"
)

// Round-4 rules of C01.
//
//   gauge-size-captured-before-promise: the amount subtracted from
//   producer.bufferedBytes in finishRecordPromise is the record's userSize()
//   captured before the user's promise runs (the promise may shrink, clear or
//   recycle the record), and nothing in finishRecordPromise sizes or reads the
//   record's user-mutable payload after the promise; produce adds the very
//   same measure.
//
//   killable-ring-push-completes-on-dead: for every ring field on which die()
//   is called somewhere (type-resolved per field), every push binds the `dead`
//   result and, on every path on which dead is true (and hence first is
//   false), completes the pushed element by calling its promise with a
//   non-nil error.  A push on a dead ring does not enqueue, so nobody else
//   ever completes the element.  Rings that are never killed may ignore dead.

func c01round4(c *Ctx, m *Module) {
	c01gaugeBeforePromise(c, m)
	c01killableRings(c, m)
}

// ---------------------------------------------------------------------------

// c01defsOf lists the right-hand sides assigned to the local variable obj in
// body (deep); a nil entry stands for a definition without a usable value
// (var x T, multi-value assignment, x++, &x, range variable).
type c01def struct {
	node ast.Node
	rhs  ast.Expr
}

func c01defsOf(body ast.Node, info *types.Info, obj types.Object) []c01def {
	var out []c01def
	ast.Inspect(body, func(x ast.Node) bool {
		switch s := x.(type) {
		case *ast.AssignStmt:
			for i, l := range s.Lhs {
				id, ok := l.(*ast.Ident)
				if !ok || (info.Defs[id] != obj && info.Uses[id] != obj) {
					continue
				}
				d := c01def{node: s}
				if len(s.Rhs) == len(s.Lhs) && (s.Tok == token.DEFINE || s.Tok == token.ASSIGN) {
					d.rhs = s.Rhs[i]
				}
				out = append(out, d)
			}
		case *ast.ValueSpec:
			for i, id := range s.Names {
				if info.Defs[id] == obj {
					d := c01def{node: s}
					if i < len(s.Values) && len(s.Values) == len(s.Names) {
						d.rhs = s.Values[i]
					}
					out = append(out, d)
				}
			}
		case *ast.IncDecStmt:
			if id, ok := s.X.(*ast.Ident); ok && info.Uses[id] == obj {
				out = append(out, c01def{node: s})
			}
		case *ast.UnaryExpr:
			if s.Op == token.AND {
				if id, ok := unparen(s.X).(*ast.Ident); ok && info.Uses[id] == obj {
					out = append(out, c01def{node: s})
				}
			}
		case *ast.RangeStmt:
			for _, l := range []ast.Expr{s.Key, s.Value} {
				if id, ok := l.(*ast.Ident); ok && (info.Defs[id] == obj || info.Uses[id] == obj) {
					out = append(out, c01def{node: s})
				}
			}
		}
		return true
	})
	return out
}

// c01rootIdent returns the identifier at the root of a selector chain.
func c01rootIdent(e ast.Expr) *ast.Ident {
	for {
		switch x := unparen(e).(type) {
		case *ast.Ident:
			return x
		case *ast.SelectorExpr:
			e = x.X
		case *ast.StarExpr:
			e = x.X
		default:
			return nil
		}
	}
}

func c01gaugeBeforePromise(c *Ctx, m *Module) {
	rule := "gauge-size-captured-before-promise"
	f := c.NeedFunc(m, "kgo.Client.finishRecordPromise")
	pf := m.Field("kgo", "promisedRec", "promise")
	bb := m.Field("kgo", "producer", "bufferedBytes")
	us := m.Method("kgo", "Record", "userSize")
	if f == nil {
		return
	}
	if pf == nil || bb == nil || us == nil {
		c.Undecided(rule, f.Key+"#anchors", f.Pos(), m, "promisedRec.promise, producer.bufferedBytes or Record.userSize not found")
		return
	}
	info := f.Info()
	g := f.Graph()
	// the user callback invocation and the record it is invoked on
	var prom *ast.CallExpr
	nProm := 0
	for _, n := range findNodes(f.Decl.Body, true, func(x ast.Node) bool {
		call, ok := x.(*ast.CallExpr)
		return ok && sameField(fieldOfSel(info, call.Fun), pf)
	}) {
		prom = n.(*ast.CallExpr)
		nProm++
	}
	if nProm != 1 {
		c.Undecided(rule, f.Key+"#promise-call", f.Pos(), m, fmt.Sprintf("expected one invocation of promisedRec.promise, found %d", nProm))
		return
	}
	pl, okp := g.LocOf(prom)
	var recObj types.Object
	if id := c01rootIdent(prom.Fun); id != nil {
		recObj = info.Uses[id]
	}
	if !okp || recObj == nil {
		c.Undecided(rule, f.Key+"#promise-call", prom.Pos(), m, "the promise invocation is not in the function's main body or its record is not a plain variable")
		return
	}
	isSizeCall := func(e ast.Expr) (*ast.CallExpr, bool) {
		call, ok := unparen(e).(*ast.CallExpr)
		if !ok || !isCallTo(info, call, us) {
			return nil, false
		}
		return call, true
	}
	sizeOfRec := func(call *ast.CallExpr) bool {
		id := c01rootIdent(call.Fun)
		return id != nil && info.Uses[id] == recObj
	}
	// (a) the amount subtracted from bufferedBytes
	nDec := 0
	for _, st := range storesTo(f.Decl.Body, info, bb, true) {
		if st.Kind != "opassign:-=" {
			continue // other kinds are judged by buffered-counter-discipline
		}
		nDec++
		cons := f.Key + ": " + nodeStr(st.Node)
		dl, okd := g.LocOf(st.Node)
		if !okd {
			c.Undecided(rule, cons, st.Node.Pos(), m, "decrement is inside a function literal")
			continue
		}
		amount := unparen(st.RHS)
		id, isID := amount.(*ast.Ident)
		if !isID {
			if containsNode(amount, true, func(x ast.Node) bool {
				if call, ok := x.(*ast.CallExpr); ok && isCallTo(info, call, us) {
					return true
				}
				if xid, ok := x.(*ast.Ident); ok && info.Uses[xid] == recObj {
					return true
				}
				return false
			}) && g.reachLoc(pl, dl) {
				c.Fail(rule, cons, st.Node.Pos(), m, "the amount subtracted from bufferedBytes (`"+exprStr(amount)+"`) is computed from the record after the user's promise ran: a promise that shrinks, clears or recycles the record makes fewer bytes be subtracted than produce added, BufferedProduceBytes never returns to zero and Produce blocks forever at MaxBufferedBytes")
			} else {
				c.Undecided(rule, cons, st.Node.Pos(), m, "the amount subtracted from bufferedBytes (`"+exprStr(amount)+"`) is not a variable holding the record's userSize()")
			}
			continue
		}
		obj := info.Uses[id]
		defs := c01defsOf(f.Decl.Body, info, obj)
		if len(defs) == 0 {
			c.Undecided(rule, cons, st.Node.Pos(), m, "`"+id.Name+"` is not a local variable of finishRecordPromise")
			continue
		}
		verdict, detail := "ok", ""
		dominating := false
		for _, d := range defs {
			if _, isDecl := d.node.(*ast.ValueSpec); isDecl && d.rhs == nil {
				continue // `var v T`: the declaration precedes, and is overwritten by, the dominating capture required below
			}
			call, isSize := (*ast.CallExpr)(nil), false
			if d.rhs != nil {
				call, isSize = isSizeCall(d.rhs)
			}
			if !isSize || !sizeOfRec(call) {
				if l, ok := g.LocOf(d.node); ok && d.rhs != nil && g.reachLoc(pl, l) && mentionsObj(d.rhs, info, recObj, true) {
					verdict, detail = "fail", "`"+nodeStr(d.node)+"` derives the subtracted amount from the record after the user's promise ran ("+m.Position(prom.Pos())+"): a promise that shrinks, clears or recycles the record makes fewer bytes be subtracted than produce added, BufferedProduceBytes never returns to zero and Produce blocks forever at MaxBufferedBytes"
					continue
				}
				if verdict == "ok" {
					verdict, detail = "undecided", "`"+id.Name+"` is also defined by `"+nodeStr(d.node)+"`, which is not userSize() of the promised record"
				}
				continue
			}
			l, ok := g.LocOf(d.node)
			if !ok {
				if verdict == "ok" {
					verdict, detail = "undecided", "a definition of `"+id.Name+"` is inside a function literal"
				}
				continue
			}
			if g.reachLoc(pl, l) {
				verdict, detail = "fail", "`"+nodeStr(d.node)+"` measures the record after the user's promise ran ("+m.Position(prom.Pos())+"): a promise that shrinks, clears or recycles the record (r.Value = nil, pooled buffers) makes fewer bytes be subtracted than produce added, BufferedProduceBytes never returns to zero and Produce blocks forever at MaxBufferedBytes"
			}
			if g.Dominates(l, dl) && g.Dominates(l, pl) {
				dominating = true
			}
		}
		if verdict == "ok" && !dominating {
			verdict, detail = "undecided", "no userSize() capture dominates both the promise call and the decrement"
		}
		switch verdict {
		case "ok":
			c.OK(rule, cons, st.Node.Pos(), m, "subtracts userSize() captured before the promise")
		case "fail":
			c.Fail(rule, cons, st.Node.Pos(), m, detail)
		default:
			c.Undecided(rule, cons, st.Node.Pos(), m, detail)
		}
	}
	c.Floor(rule, nDec, 1)
	// (b) nothing sizes or reads the user-mutable payload after the promise
	rec := m.Object("kgo", "Record")
	payload := map[*types.Var]bool{}
	if rec != nil {
		if st, ok := rec.Type().Underlying().(*types.Struct); ok {
			for i := 0; i < st.NumFields(); i++ {
				switch st.Field(i).Name() {
				case "Key", "Value", "Headers":
					payload[st.Field(i)] = true
				}
			}
		}
	}
	if len(payload) != 3 {
		c.Undecided(rule, f.Key+"#payload-fields", f.Pos(), m, "Record.Key/Value/Headers not found")
		return
	}
	late := ""
	var latePos token.Pos
	undecided := ""
	ast.Inspect(f.Decl.Body, func(x ast.Node) bool {
		e, ok := x.(ast.Expr)
		if !ok {
			return true
		}
		what := ""
		if call, isCall := e.(*ast.CallExpr); isCall && isCallTo(info, call, us) {
			what = exprStr(call)
		} else if fv := fieldOfSel(info, e); fv != nil {
			for p := range payload {
				if sameField(fv, p) {
					what = exprStr(e)
				}
			}
		}
		if what == "" {
			return true
		}
		l, ok := g.LocOf(e)
		if !ok {
			if innermostLit(f, e) != nil {
				undecided = what + " inside a function literal"
			}
			return true
		}
		if l != pl && g.reachLoc(pl, l) && late == "" {
			late, latePos = what, e.Pos()
		}
		return true
	})
	switch {
	case late != "":
		c.Fail(rule, f.Key+"#no-payload-read-after-promise", latePos, m, "`"+late+"` reads the record's key/value/headers after the user's promise ran; the promise owns the record from then on (it may truncate or recycle it), so any accounting derived from it differs from what produce added")
	case undecided != "":
		c.Undecided(rule, f.Key+"#no-payload-read-after-promise", f.Pos(), m, undecided)
	default:
		c.OK(rule, f.Key+"#no-payload-read-after-promise", f.Pos(), m, "the record's payload is neither sized nor read after the promise")
	}
	// (c) produce adds the same measure: bufferedBytes += v, v := <record>.userSize()
	if pf := c.NeedFunc(m, "kgo.Client.produce"); pf != nil {
		pinfo := pf.Info()
		n := 0
		for _, st := range storesTo(pf.Decl.Body, pinfo, bb, true) {
			if st.Kind != "opassign:+=" {
				continue
			}
			n++
			cons := pf.Key + ": " + nodeStr(st.Node)
			id, isID := unparen(st.RHS).(*ast.Ident)
			ok := false
			if isID {
				defs := c01defsOf(pf.Decl.Body, pinfo, pinfo.Uses[id])
				ok = len(defs) == 1 && defs[0].rhs != nil
				if ok {
					call, isCall := unparen(defs[0].rhs).(*ast.CallExpr)
					ok = isCall && isCallTo(pinfo, call, us)
				}
			}
			c.Check(ok, rule, cons, st.Node.Pos(), m, "adds the record's userSize()", "the amount added to bufferedBytes is not a single-assignment variable holding the record's userSize(): finishRecordPromise subtracts userSize(), so the gauge does not return to zero")
		}
		c.Floor(rule+"#admission", n, 1)
	}
}

// ---------------------------------------------------------------------------

type c01ringUse struct {
	fn   *Func
	call *ast.CallExpr
	name string // method
}

type c01ringInfo struct {
	field  *types.Var
	name   string
	kills  []c01ringUse
	pushes []c01ringUse
}

// c01allFuncs: the loader skips every declaration named init, including
// methods such as (*producer).init; the ring rules need those bodies too.
var c01initCache = map[*Module][]*Func{}

func c01allFuncs(m *Module) []*Func {
	funcs := m.FuncsIn("kgo")
	extra, ok := c01initCache[m]
	if !ok {
		if p := m.Pkg("kgo"); p != nil {
			for _, file := range p.Syntax {
				for _, d := range file.Decls {
					fd, ok := d.(*ast.FuncDecl)
					if !ok || fd.Body == nil || fd.Recv == nil || fd.Name.Name != "init" {
						continue
					}
					if m.Func(funcKey(p.Name, fd)) != nil {
						continue // the loader indexes methods named init itself now
					}
					obj, _ := p.TypesInfo.Defs[fd.Name].(*types.Func)
					if obj == nil {
						continue
					}
					extra = append(extra, &Func{Key: funcKey(p.Name, fd), Pkg: p, Decl: fd, Obj: obj, mod: m})
				}
			}
		}
		sort.Slice(extra, func(i, j int) bool { return extra[i].Key < extra[j].Key })
		c01initCache[m] = extra
	}
	return append(append([]*Func{}, funcs...), extra...)
}

func c01isRingType(t types.Type) bool {
	if t == nil {
		return false
	}
	if p, ok := t.(*types.Pointer); ok {
		t = p.Elem()
	}
	n, ok := t.(*types.Named)
	if !ok {
		return false
	}
	o := n.Origin().Obj()
	return o.Name() == "ring" && o.Pkg() != nil && o.Pkg().Name() == "kgo"
}

func c01killableRings(c *Ctx, m *Module) {
	rule := "killable-ring-push-completes-on-dead"
	funcs := c01allFuncs(m)
	rings := map[string]*c01ringInfo{}
	var order []string
	ringFor := func(info *types.Info, sel *ast.SelectorExpr, fv *types.Var) *c01ringInfo {
		owner := "?"
		if s := info.Selections[sel]; s != nil {
			t := s.Recv()
			if p, ok := t.(*types.Pointer); ok {
				t = p.Elem()
			}
			if n, ok := t.(*types.Named); ok {
				owner = n.Obj().Name()
			}
		}
		// identify by declaration position of the field (stable across instantiations)
		key := fmt.Sprintf("%s.%s@%d", owner, fv.Name(), fv.Origin().Pos())
		for _, k := range order {
			if sameField(rings[k].field, fv) {
				return rings[k]
			}
		}
		r := &c01ringInfo{field: fv, name: owner + "." + fv.Name()}
		rings[key] = r
		order = append(order, key)
		return r
	}
	deadField := m.Field("kgo", "ring", "dead")
	for _, f := range funcs {
		if len(f.Key) >= 9 && f.Key[:9] == "kgo.ring." {
			continue
		}
		info := f.Info()
		parents := parentMap(f.Decl.Body)
		up := func(n ast.Node) ast.Node {
			p := parents[n]
			for {
				if pe, ok := p.(*ast.ParenExpr); ok {
					p = parents[pe]
					continue
				}
				return p
			}
		}
		ast.Inspect(f.Decl.Body, func(x ast.Node) bool {
			switch e := x.(type) {
			case *ast.SelectorExpr:
				fv := fieldOfSel(info, e)
				if fv == nil || !c01isRingType(fv.Type()) {
					return true
				}
				c.Touch(f)
				r := ringFor(info, e, fv)
				psel, ok := up(e).(*ast.SelectorExpr)
				if !ok || unparen(psel.X) != ast.Expr(e) {
					c.Undecided(rule, f.Key+": "+r.name+" (aliased)", e.Pos(), m, "the ring is used other than as the receiver of a method call or field access (address taken, copied or passed on): its pushers and killers can no longer be enumerated")
					return true
				}
				if call, ok := up(psel).(*ast.CallExpr); ok && unparen(call.Fun) == ast.Expr(psel) {
					switch calleeName(info, call) {
					case "kgo.ring.push", "kgo.ring.pushForce":
						r.pushes = append(r.pushes, c01ringUse{f, call, psel.Sel.Name})
					case "kgo.ring.die":
						r.kills = append(r.kills, c01ringUse{f, call, "die"})
					}
					return true
				}
				if s := info.Selections[psel]; s != nil && s.Kind() == types.MethodVal {
					c.Undecided(rule, f.Key+": "+r.name+"."+psel.Sel.Name+" (method value)", e.Pos(), m, "a ring method is taken as a value")
					return true
				}
				// field access X.ring.dead = ... kills the ring too
				if deadField != nil && sameField(fieldOfSel(info, psel), deadField) {
					if as, ok := up(psel).(*ast.AssignStmt); ok {
						for _, l := range as.Lhs {
							if unparen(l) == ast.Expr(psel) {
								r.kills = append(r.kills, c01ringUse{f, nil, "dead="})
							}
						}
					}
				}
			case *ast.CallExpr:
				// pushes / kills on something that is not a struct field
				switch calleeName(info, e) {
				case "kgo.ring.push", "kgo.ring.pushForce", "kgo.ring.die":
					sel, ok := unparen(e.Fun).(*ast.SelectorExpr)
					if !ok || fieldOfSel(info, sel.X) == nil {
						c.Undecided(rule, f.Key+": "+exprStr(e.Fun)+" (receiver is not a ring field)", e.Pos(), m, "the ring this call operates on cannot be resolved to a struct field")
					}
				}
			}
			return true
		})
	}
	nPush, nKillable, nKills := 0, 0, 0
	sort.Strings(order)
	for _, k := range order {
		r := rings[k]
		nKills += len(r.kills)
		killedAt := ""
		if len(r.kills) > 0 {
			killedAt = r.kills[0].fn.Key
		}
		perFn := map[string]int{}
		for _, p := range r.pushes {
			nPush++
			cons := fmt.Sprintf("%s: %s.%s", p.fn.Key, r.name, p.name)
			if perFn[cons] > 0 {
				cons = fmt.Sprintf("%s#%d", cons, perFn[cons]+1)
			}
			perFn[fmt.Sprintf("%s: %s.%s", p.fn.Key, r.name, p.name)]++
			if len(r.kills) == 0 {
				c.OK(rule, cons, p.call.Pos(), m, "die() is never called on this ring: dead cannot be reported")
				continue
			}
			nKillable++
			c01checkDeadArm(c, m, rule, cons, p, r.name, killedAt)
		}
	}
	c.Floor(rule+"#rings", len(order), 5)
	c.Floor(rule+"#pushes", nPush, 6)
	c.Floor(rule+"#killable-pushes", nKillable, 2)
	c.Floor(rule+"#kills", nKills, 2)
}

// c01checkDeadArm: the push binds dead and every dead path completes the element.
func c01checkDeadArm(c *Ctx, m *Module, rule, cons string, p c01ringUse, ring, killedAt string) {
	f := p.fn
	info := f.Info()
	call := p.call
	why := "a push on a dead ring does not enqueue the element (ring.doPush returns false, true), and " + ring + " is killed by " + killedAt + " on another goroutine: the element's promise is never called, so for a produce request the sink's ordered response queue stalls and the records' promises never run (Flush hangs until Close)"
	var as *ast.AssignStmt
	ast.Inspect(f.Decl.Body, func(x ast.Node) bool {
		if s, ok := x.(*ast.AssignStmt); ok && len(s.Rhs) == 1 && unparen(s.Rhs[0]) == ast.Expr(call) {
			as = s
		}
		return true
	})
	if as == nil || len(as.Lhs) != 2 {
		c.Fail(rule, cons, call.Pos(), m, "the results of the push are discarded; "+why)
		return
	}
	objOf := func(e ast.Expr) types.Object {
		id, ok := e.(*ast.Ident)
		if !ok || id.Name == "_" {
			return nil
		}
		if o := info.Defs[id]; o != nil {
			return o
		}
		return info.Uses[id]
	}
	firstObj, deadObj := objOf(as.Lhs[0]), objOf(as.Lhs[1])
	if deadObj == nil {
		c.Fail(rule, cons, call.Pos(), m, "the `dead` result of the push is discarded (`"+nodeStr(as)+"`); "+why)
		return
	}
	if len(call.Args) != 1 {
		c.Undecided(rule, cons, call.Pos(), m, "unexpected push arity")
		return
	}
	elemID, ok := unparen(call.Args[0]).(*ast.Ident)
	if !ok {
		c.Undecided(rule, cons, call.Pos(), m, "the pushed element is not a plain variable; its completion cannot be identified")
		return
	}
	elemObj := info.Uses[elemID]
	// completion callbacks: func-typed fields of the element, and the values stored in them by the element's literal
	funcFields := map[*types.Var]bool{}
	var est *types.Struct
	if elemObj != nil {
		t := elemObj.Type()
		if pt, ok := t.(*types.Pointer); ok {
			t = pt.Elem()
		}
		est, _ = t.Underlying().(*types.Struct)
	}
	if est == nil {
		c.Undecided(rule, cons, call.Pos(), m, "the pushed element is not a struct")
		return
	}
	for i := 0; i < est.NumFields(); i++ {
		if _, isSig := est.Field(i).Type().Underlying().(*types.Signature); isSig {
			funcFields[est.Field(i)] = true
		}
	}
	if len(funcFields) == 0 {
		c.Undecided(rule, cons, call.Pos(), m, "the pushed element has no completion callback field")
		return
	}
	cbVars := map[types.Object]bool{}
	for _, d := range c01defsOf(f.Decl.Body, info, elemObj) {
		lit, ok := unparen(d.rhs).(*ast.CompositeLit)
		if d.rhs == nil || !ok {
			continue
		}
		for i, el := range lit.Elts {
			var fv *types.Var
			val := el
			if kv, ok := el.(*ast.KeyValueExpr); ok {
				if kid, ok := kv.Key.(*ast.Ident); ok {
					fv, _ = info.Uses[kid].(*types.Var)
				}
				val = kv.Value
			} else if i < est.NumFields() {
				fv = est.Field(i)
			}
			if fv == nil {
				continue
			}
			for ff := range funcFields {
				if sameField(ff, fv) {
					if vid, ok := unparen(val).(*ast.Ident); ok && info.Uses[vid] != nil {
						cbVars[info.Uses[vid]] = true
					}
				}
			}
		}
	}
	isCompletion := func(x ast.Node) bool {
		cc, ok := x.(*ast.CallExpr)
		if !ok || len(cc.Args) == 0 {
			return false
		}
		match := false
		if fv := fieldOfSel(info, cc.Fun); fv != nil {
			for ff := range funcFields {
				if sameField(ff, fv) {
					if id := c01rootIdent(cc.Fun); id != nil && info.Uses[id] == elemObj {
						match = true
					}
				}
			}
		} else if id, ok := unparen(cc.Fun).(*ast.Ident); ok && cbVars[info.Uses[id]] {
			match = true
		}
		if !match {
			return false
		}
		last := cc.Args[len(cc.Args)-1]
		tv, ok := info.Types[last]
		if !ok || tv.IsNil() {
			return false // completing with a nil error is not a failure completion
		}
		return types.Implements(tv.Type, c01errorIface()) || types.Identical(tv.Type, types.Universe.Lookup("error").Type())
	}
	g := f.GraphFor(call)
	loc, okl := g.LocOf(as)
	if !okl {
		c.Undecided(rule, cons, call.Pos(), m, "push not located in the control-flow graph")
		return
	}
	env := &triEnv{f: f, atom: func(e ast.Expr) (tri, bool) {
		if id, ok := e.(*ast.Ident); ok {
			switch o := info.Uses[id]; {
			case o != nil && o == deadObj:
				return triT, true
			case o != nil && o == firstObj:
				return triF, true
			}
		}
		return triU, false
	}}
	path, found := g.FindPath(loc, SearchOpts{
		Stop: func(n ast.Node) bool {
			if _, isDefer := n.(*ast.DeferStmt); isDefer {
				return false
			}
			if _, isGo := n.(*ast.GoStmt); isGo {
				return false
			}
			return containsNode(n, false, isCompletion)
		},
		EdgeOK: func(from *cfg.Block, k int, to *cfg.Block) bool {
			cond, tag, ok := g.condOf(from)
			if !ok || tag != nil {
				return true
			}
			switch env.eval(cond) {
			case triT:
				return k == 0
			case triF:
				return k == 1
			}
			return true
		},
		GoalExit: func(kind ExitKind, last ast.Node) bool { return kind != ExitPanic },
	})
	c.Check(!found, rule, cons, call.Pos(), m, "dead is bound and every dead path calls the element's promise with an error",
		"with dead == true (first == false) the function can return without calling the pushed element's promise with an error ("+pathStr(path)+"); "+why)
}

var c01errIface *types.Interface

func c01errorIface() *types.Interface {
	if c01errIface == nil {
		c01errIface = types.Universe.Lookup("error").Type().Underlying().(*types.Interface)
	}
	return c01errIface
}
