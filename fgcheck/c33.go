package main

import (
	"fmt"
	"go/ast"
	"go/constant"
	"go/token"
	"go/types"
	"strings"

	"golang.org/x/tools/go/cfg"
)

func init() {
	register(&Prop{
		ID:        "C33",
		Level:     "other",
		Technique: "durability-ordering rules on control-flow graphs: three-valued path exploration of the produce acknowledgement, dominance of the segment write over the in-memory append, must-pass-through (write -> fsync -> success / rename) searches evaluated under SyncWrites = true, constant evaluation of open flags, who-may-call tables for the committed-offset map, loop-exit rules on the torn-entry readers, must-assert-equality search on the snapshot acceptance test",
		Explanation: "Necessary ordering conditions for `acknowledged implies recovered`, each decided on the CFG with cfg.syncWrites (and bool sync parameters fed from it) taken as true: " +
			"(1) every path of handleProduce that answers a non-duplicate batch with error 0 called pushBatch for that batch and saw a result >= 0; in pushBatch the persistBatchToSegment call dominates the index append and the highWatermark / lastStableOffset stores, which carry the fact segPos >= 0, and the failure arm returns a negative value; " +
			"(2) in persistBatchToSegment no path leads from a Write of the active segment / index file to a non-negative return without a Sync of the same file; the success return carries the fact that both writes succeeded; the failure arm truncates the segment to the size recorded before the write (no path from `size +=` to the Truncate) and returns a negative value; " +
			"(3) writeEntry: no path from the Write to a nil-error return without Sync; appendLogEntry forwards its sync parameter; every other caller passes cfg.syncWrites, or false only for a temp file that rule 4 shows is synced as a whole before its rename; " +
			"(4) for every fs.Rename(tmp, final): tmp is `final + \".tmp\"` opened in the same function with O_TRUNC, and no path leads from an unsynced write to that file (direct Write, unsynced writeEntry/appendLogEntry, or a local closure doing so) to the Rename without a Sync of it; no other OpenFile truncates (exception, stated: rebuildSegments, compaction only) and the live segment / groups.log / pids.log handles are opened O_CREATE|O_APPEND; " +
			"(5) group.commits.set / delp are called only from commitAndPersist / deleteCommitAndPersist (and the loader), where persistGroupEntry of the same key follows on every path and persistGroupEntry appends its parameter; topics created by a handler (data.mkt / tps.mkp on data.tps) are followed by persistTopicsState (or saveToDisk) on every path; " +
			"(6) readEntries and loadSegmentBatches leave their loop (no path back to the loop head, no continue) unless the entry was appended, the append carries the CRC / length facts, and loadSegmentBatches truncates the torn tail, and every state-log loader that keeps the valid length of readEntries truncates the log to it; snapshotMatchesSegments can return true only after asserting equality of segment count, base offsets and file sizes; " +
			"(7) restart does not panic on an empty segment: pruneEmptySegments keeps a segment only under len(index) > 0 and cuts pd.segments to the kept prefix, and every X.index[...] in loadPartitionFromSnapshot / loadPartitionFullReplay is either guarded by len(X.index) > 0 or lies under pd.hasBatches() after pruneEmptySegments() with no segment appended in between; " +
			"(8) saveSeqWindows / loadSeqWindows agree: every pidwindow field is stored, the current-format branch (w.Count > 0) restores each field from the JSON field it was stored in (entries element-wise at the same index) and nothing overwrites it before windows.set.",
		NotDecided: "the crash-point enumeration itself (that recovery from every prefix of the file-operation sequence yields a consistent state); fsync error handling (persistBatchToSegment ignores Sync errors, commitAndPersist ignores persistGroupEntry's error); directory fsync after rename/create; equality of recovered and pre-Close state; rebuildSegments (compaction) removes the old segment files before the replacements exist - reported as an observation, outside the produce/commit scope of the statement.",
		Assumptions: []string{
			"crash model of the statement: data written but not fsynced may be lost per file; create/rename/remove are durable when they return",
			"cfg.syncWrites is true (the statement is conditional on SyncWrites)",
			"go/cfg does not split short-circuit conditions: an if condition is one node",
		},
		Run: runC33,
	})
}

type c33env struct {
	c     *Ctx
	m     *Module
	funcs []*Func
	keys  c32keys
	syncW *types.Var // cfg.syncWrites
	osC   map[string]int64
}

func runC33(c *Ctx) {
	m := c.Load("pkg/kfake")
	if m == nil {
		return
	}
	e := &c33env{c: c, m: m, funcs: m.FuncsIn(c32pkg), keys: c32keys{}, osC: map[string]int64{}}
	e.syncW = m.Field(c32pkg, "cfg", "syncWrites")
	if e.syncW == nil {
		c.Undecided("anchor", "kfake.cfg.syncWrites", token.NoPos, m, "field not found")
		return
	}
	if p := m.Pkg(c32pkg); p != nil {
		for _, imp := range p.Types.Imports() {
			if imp.Path() == "os" {
				for _, n := range []string{"O_TRUNC", "O_APPEND", "O_CREATE"} {
					if k, ok := imp.Scope().Lookup(n).(*types.Const); ok {
						if v, exact := constant.Int64Val(constant.ToInt(k.Val())); exact {
							e.osC[n] = v
						}
					}
				}
			}
		}
	}
	if len(e.osC) != 3 {
		c.Undecided("anchor", "os.O_TRUNC/O_APPEND/O_CREATE", token.NoPos, m, "constants not resolved")
		return
	}
	e.ackAfterAppend()
	e.persistBeforeVisible()
	e.segmentSync()
	e.writeEntryRule()
	e.entryCallers()
	e.tempRename()
	e.openFlags()
	e.commitsPersisted()
	e.topicsPersisted()
	e.tornReaders()
	e.snapshotMatch()
	e.loadIndexBounds()
	e.stateLogTornTail()
	e.seqWindowAgreement()
	c.Set("observations", []string{
		"kfake.Cluster.rebuildSegments (log compaction of cleanup.policy=compact topics) removes every segment and index file of the partition and then recreates them with O_TRUNC; a stop between the Remove loop and the final Sync leaves the partition without its acknowledged, non-superseded records. Exempted from the no-truncating-open rule as planned (compaction is outside the produce/commit scope).",
		"persistBatchToSegment ignores the error of both Sync calls and commitAndPersist ignores persistGroupEntry's error: a failing fsync/write is still acknowledged (error handling, not a crash point).",
	})
}

// ---- helpers ----

// syncTrueEdges prunes the edges that contradict "sync is enabled": the false
// edge of `if <cfg.syncWrites>` / `if <bool parameter>` (true edge when negated).
func (e *c33env) syncTrueEdges(f *Func, g *Graph) func(from *cfg.Block, k int, to *cfg.Block) bool {
	info := f.Info()
	params := map[types.Object]bool{}
	sig := f.Obj.Type().(*types.Signature)
	for i := 0; i < sig.Params().Len(); i++ {
		p := sig.Params().At(i)
		if types.Identical(p.Type(), types.Typ[types.Bool]) {
			params[p] = true
		}
	}
	return func(from *cfg.Block, k int, to *cfg.Block) bool {
		cond, tag, ok := g.condOf(from)
		if !ok || tag != nil {
			return true
		}
		neg := false
		x := unparen(cond)
		for {
			u, isU := x.(*ast.UnaryExpr)
			if !isU || u.Op != token.NOT {
				break
			}
			neg = !neg
			x = unparen(u.X)
		}
		isSync := c32isField(info, x, e.syncW)
		if o := c32identObj(info, x); o != nil {
			if params[o] {
				isSync = true
			} else if def := singleDef(f, o); def != nil && c32isField(info, def, e.syncW) {
				isSync = true // local copy of cfg.syncWrites
			}
		}
		if !isSync {
			return true
		}
		if neg {
			return k == 1
		}
		return k == 0
	}
}

// methodCallOn: call is X.<name>(...) with pred(X).
func c33methodCallOn(call *ast.CallExpr, name string, pred func(x ast.Expr) bool) bool {
	sel, ok := unparen(call.Fun).(*ast.SelectorExpr)
	return ok && sel.Sel.Name == name && pred(sel.X)
}

func c33hasMethodCall(n ast.Node, name string, pred func(x ast.Expr) bool) bool {
	return containsNode(n, false, func(x ast.Node) bool {
		cl, ok := x.(*ast.CallExpr)
		return ok && c33methodCallOn(cl, name, pred)
	})
}

func c33isNil(x ast.Expr) bool { id, ok := unparen(x).(*ast.Ident); return ok && id.Name == "nil" }

func c33negConst(info *types.Info, x ast.Expr) bool {
	v, ok := constInt(info, x)
	return ok && v < 0
}

// ---- (1) acknowledgement ----

func (e *c33env) ackAfterAppend() {
	c, m := e.c, e.m
	rule := "ack-after-append"
	f, acks, ok := c32produceWalk(c, m, rule)
	if !ok {
		return
	}
	n := 0
	seen := map[string]bool{}
	for _, a := range acks {
		if a.st.dup == triT {
			continue // duplicate: answered from the window (C29 / C32)
		}
		n++
		cons := f.Key + ": " + exprStr(a.call)
		why := ""
		switch a.st.pushed {
		case 1:
		case 0:
			why = "without calling pushBatch for the batch"
		case 2:
			why = "although pushBatch reported a failed segment write (< 0)"
		default:
			why = "without testing pushBatch's result (a negative result means the segment write failed)"
		}
		if why == "" && seen[cons] {
			continue
		}
		seen[cons] = true
		if why == "" {
			c.OK(rule, e.keys.uniq(cons), a.call.Pos(), m, "only after pushBatch(...) >= 0")
		} else {
			c.Fail(rule, e.keys.uniq(cons), a.call.Pos(), m, "a produce partition is answered with error code 0 "+why+fmt.Sprintf(" (dup=%v): the client is told the records are stored but a restart does not recover them", a.st.dup == triT))
		}
	}
	c.Floor(rule, n, 1)
}

func (e *c33env) persistBeforeVisible() {
	c, m := e.c, e.m
	rule := "append-persist-before-visible"
	f := c.NeedFunc(m, "kfake.Cluster.pushBatch")
	persist := m.Method(c32pkg, "Cluster", "persistBatchToSegment")
	if f == nil || persist == nil {
		if persist == nil {
			c.Undecided("anchor", "kfake.Cluster.persistBatchToSegment", token.NoPos, m, "not found")
		}
		return
	}
	info := f.Info()
	g := f.Graph()
	calls := callsTo(f.Decl.Body, info, persist, false)
	if len(calls) != 1 {
		c.Fail(rule, f.Key+"#persist-call", f.Pos(), m, fmt.Sprintf("pushBatch calls persistBatchToSegment %d times, want exactly once before the in-memory append", len(calls)))
		return
	}
	call := calls[0]
	cl, _ := g.LocOf(call)
	var pos types.Object
	if as, ok := enclosingStmt(f.Decl.Body, call).(*ast.AssignStmt); ok && len(as.Lhs) == 1 {
		pos = c32identObj(info, as.Lhs[0])
	}
	if pos == nil {
		c.Fail(rule, f.Key+"#result", call.Pos(), m, "the result of persistBatchToSegment is not kept: a failed segment write cannot be detected")
		return
	}
	isPos := func(x ast.Expr) bool { return c32identObj(info, x) == pos }
	isZero := func(x ast.Expr) bool { v, ok := constInt(info, x); return ok && v == 0 }
	var stores []StoreSite
	for _, fld := range [][2]string{{"partData", "highWatermark"}, {"partData", "lastStableOffset"}, {"segmentInfo", "index"}, {"partData", "nbytes"}} {
		v := m.Field(c32pkg, fld[0], fld[1])
		if v == nil {
			c.Undecided("anchor", "kfake."+fld[0]+"."+fld[1], token.NoPos, m, "field not found")
			continue
		}
		for _, s := range storesTo(f.Decl.Body, info, v, false) {
			stores = append(stores, StoreSite{Fn: f, Store: s})
		}
	}
	for _, st := range stores {
		cons := e.keys.uniq(f.Key + ": " + nodeStr(st.Node))
		sl, _ := g.LocOf(st.Node)
		dom := g.Dominates(cl, sl)
		okFact := c32factCmp(g.FactsAt(sl), token.GEQ, isPos, isZero)
		c.Check(dom && okFact, rule, cons, st.Node.Pos(), m, "after a successful segment write",
			"the in-memory log state is advanced on a path where the batch was not (successfully) written to the segment file first: the offset is acknowledged and served but a restart does not find the batch")
	}
	c.Floor(rule, len(stores), 4)
	// failure arm returns a negative value
	nf := 0
	for _, rn := range findNodes(f.Decl.Body, false, func(x ast.Node) bool { _, ok := x.(*ast.ReturnStmt); return ok }) {
		r := rn.(*ast.ReturnStmt)
		rl, _ := g.LocOf(r)
		if len(r.Results) == 1 && c32factCmp(g.FactsAt(rl), token.LSS, isPos, isZero) {
			nf++
			c.Check(c33negConst(info, r.Results[0]), rule, f.Key+"#failure-returns-negative", r.Pos(), m, "", "pushBatch returns `"+exprStr(r.Results[0])+"` after a failed segment write; callers test < 0")
		}
	}
	c.Floor(rule+"/failure-arm", nf, 1)
}

// ---- (2) persistBatchToSegment ----

func (e *c33env) segmentSync() {
	c, m := e.c, e.m
	rule := "segment-write-synced-before-success"
	f := c.NeedFunc(m, "kfake.Cluster.persistBatchToSegment")
	if f == nil {
		return
	}
	info := f.Info()
	g := f.Graph()
	edges := e.syncTrueEdges(f, g)
	segF := m.Field(c32pkg, "partData", "activeSegFile")
	idxF := m.Field(c32pkg, "partData", "activeIdxFile")
	size := m.Field(c32pkg, "segmentInfo", "size")
	if segF == nil || idxF == nil || size == nil {
		c.Undecided("anchor", "kfake.partData.activeSegFile/activeIdxFile, segmentInfo.size", token.NoPos, m, "not found")
		return
	}
	successRet := func(k ExitKind, last ast.Node) bool {
		r, ok := last.(*ast.ReturnStmt)
		if !ok || len(r.Results) != 1 {
			return k == ExitEnd
		}
		return !c33negConst(info, r.Results[0])
	}
	nw := 0
	var errObjs []types.Object
	for _, fld := range []*types.Var{segF, idxF} {
		fld := fld
		onF := func(x ast.Expr) bool { return c32isField(info, x, fld) }
		for _, wn := range findNodes(f.Decl.Body, false, func(x ast.Node) bool {
			cl, ok := x.(*ast.CallExpr)
			return ok && c33methodCallOn(cl, "Write", onF)
		}) {
			nw++
			cons := e.keys.uniq(f.Key + ": " + fld.Name() + ".Write")
			wl, ok := g.LocOf(wn)
			if !ok {
				c.Undecided(rule, cons, wn.Pos(), m, "write not in the CFG")
				continue
			}
			if as, ok := enclosingStmt(f.Decl.Body, wn).(*ast.AssignStmt); ok && len(as.Lhs) == 2 {
				if o := c32identObj(info, as.Lhs[1]); o != nil {
					errObjs = append(errObjs, o)
				}
			} else {
				c.Fail(rule, cons+"#error-kept", wn.Pos(), m, "the Write error is not kept: a short or failed write would be acknowledged")
			}
			p, found := g.FindPath(wl, SearchOpts{
				Stop:     func(n ast.Node) bool { return c33hasMethodCall(n, "Sync", onF) },
				GoalExit: successRet,
				EdgeOK:   edges,
			})
			c.Check(!found, rule, cons, wn.Pos(), m, "Sync of the same file before the success return", "with SyncWrites, persistBatchToSegment can report success after writing "+fld.Name()+" without an fsync of it ("+pathStr(p)+"): a stop right after the acknowledgement loses the acknowledged batch (or its index entry)")
		}
	}
	c.Floor(rule, nw, 2)
	// success return knows both writes succeeded; failure arm truncates and returns negative
	nr := 0
	for _, rn := range findNodes(f.Decl.Body, false, func(x ast.Node) bool { _, ok := x.(*ast.ReturnStmt); return ok }) {
		r := rn.(*ast.ReturnStmt)
		if len(r.Results) != 1 {
			continue
		}
		rl, _ := g.LocOf(r)
		facts := g.FactsAt(rl)
		isErr := func(x ast.Expr) bool {
			o := c32identObj(info, x)
			for _, eo := range errObjs {
				if o == eo && o != nil {
					return true
				}
			}
			return false
		}
		if !c33negConst(info, r.Results[0]) {
			nr++
			c.Check(c32factCmp(facts, token.EQL, isErr, c33isNil), rule, f.Key+"#success-means-written", r.Pos(), m, "under segErr == nil", "persistBatchToSegment returns a position without the fact that the segment and index writes succeeded")
		} else if c32factCmp(facts, token.NEQ, isErr, c33isNil) {
			nr++
			// Truncate(active.size) on the way
			var trunc *ast.CallExpr
			for _, tn := range findNodes(f.Decl.Body, false, func(x ast.Node) bool {
				cl, ok := x.(*ast.CallExpr)
				return ok && c33methodCallOn(cl, "Truncate", func(y ast.Expr) bool { return c32isField(info, y, segF) })
			}) {
				tl, _ := g.LocOf(tn)
				if g.Dominates(tl, rl) {
					trunc = tn.(*ast.CallExpr)
				}
			}
			okT := trunc != nil && len(trunc.Args) == 1 && c32isField(info, trunc.Args[0], size)
			c.Check(okT, "segment-failed-write-truncated", f.Key+"#failure-arm", r.Pos(), m, "Truncate(active.size) then -1", "after a failed write the segment is not truncated back to the size recorded before the write: a partially written batch stays in the file")
			if trunc != nil {
				// no `size +=` before the truncate
				bad := false
				for _, st := range storesTo(f.Decl.Body, info, size, false) {
					sl, _ := g.LocOf(st.Node)
					if _, found := g.FindPath(sl, SearchOpts{GoalNode: func(n ast.Node) bool {
						return containsNode(n, false, func(y ast.Node) bool { return y == ast.Node(trunc) })
					}}); found {
						bad = true
					}
				}
				c.Check(!bad, "segment-failed-write-truncated", f.Key+"#truncate-to-pre-write-size", trunc.Pos(), m, "", "the recorded segment size is advanced before the write is known to have succeeded: the failure arm truncates to a size that includes the torn batch")
			}
		}
	}
	c.Floor(rule+"/returns", nr, 2)
}

// ---- (3) writeEntry ----

func (e *c33env) writeEntryRule() {
	c, m := e.c, e.m
	rule := "entry-write-then-sync"
	f := c.NeedFunc(m, "kfake.writeEntry")
	ap := c.NeedFunc(m, "kfake.appendLogEntry")
	if f == nil || ap == nil {
		return
	}
	info := f.Info()
	g := f.Graph()
	sig := f.Obj.Type().(*types.Signature)
	if sig.Params().Len() != 3 {
		c.Undecided(rule, f.Key, f.Pos(), m, "signature changed")
		return
	}
	fp := sig.Params().At(0)
	onF := func(x ast.Expr) bool { return c32identObj(info, x) == fp }
	writes := findNodes(f.Decl.Body, false, func(x ast.Node) bool {
		cl, ok := x.(*ast.CallExpr)
		return ok && c33methodCallOn(cl, "Write", onF)
	})
	for _, wn := range writes {
		wl, _ := g.LocOf(wn)
		var errObj types.Object
		if as, ok := enclosingStmt(f.Decl.Body, wn).(*ast.AssignStmt); ok && len(as.Lhs) == 2 {
			errObj = c32identObj(info, as.Lhs[1])
		}
		p, found := g.FindPath(wl, SearchOpts{
			Stop:   func(n ast.Node) bool { return c33hasMethodCall(n, "Sync", onF) },
			EdgeOK: e.syncTrueEdges(f, g),
			GoalExit: func(k ExitKind, last ast.Node) bool {
				if k == ExitPanic {
					return false
				}
				// returning the write error is not a success
				if r, ok := last.(*ast.ReturnStmt); ok && len(r.Results) == 1 && errObj != nil && c32identObj(info, r.Results[0]) == errObj {
					rl, _ := g.LocOf(r)
					if c32factCmp(g.FactsAt(rl), token.NEQ, func(x ast.Expr) bool { return c32identObj(info, x) == errObj }, c33isNil) {
						return false
					}
				}
				return true
			},
		})
		c.Check(!found, rule, e.keys.uniq(f.Key+": Write"), wn.Pos(), m, "Write, then Sync when syncW", "writeEntry can return success after Write without Sync although syncW is set ("+pathStr(p)+"): an acknowledged offset commit / producer-id entry is lost by a stop after the acknowledgement")
	}
	c.Floor(rule, len(writes), 1)
	// appendLogEntry forwards its sync parameter
	ainfo := ap.Info()
	asig := ap.Obj.Type().(*types.Signature)
	n := 0
	for _, call := range callsTo(ap.Decl.Body, ainfo, f.Obj, false) {
		n++
		okf := asig.Params().Len() == 3 && len(call.Args) == 3 && c32identObj(ainfo, call.Args[2]) == asig.Params().At(2) && c32identObj(ainfo, call.Args[0]) == asig.Params().At(0)
		c.Check(okf, rule, ap.Key+": forwards file and syncW", call.Pos(), m, "", "appendLogEntry does not forward its file / sync parameter to writeEntry: "+exprStr(call))
	}
	c.Floor(rule+"/forward", n, 1)
}

// unsyncedTempWrites: functions in which an unsynced entry write is allowed
// because tempRename shows the whole file is synced before the rename.
func (e *c33env) entryCallers() {
	c, m := e.c, e.m
	rule := "entry-callers-sync"
	we := m.Object(c32pkg, "writeEntry")
	ap := m.Object(c32pkg, "appendLogEntry")
	if we == nil || ap == nil {
		return
	}
	n := 0
	for _, f := range e.funcs {
		if f.Key == "kfake.writeEntry" || f.Key == "kfake.appendLogEntry" {
			continue
		}
		info := f.Info()
		for _, cn := range findNodes(f.Decl.Body, true, func(x ast.Node) bool {
			cl, ok := x.(*ast.CallExpr)
			return ok && (isCallTo(info, cl, we) || isCallTo(info, cl, ap))
		}) {
			call := cn.(*ast.CallExpr)
			n++
			c.Touch(f)
			cons := e.keys.uniq(f.Key + ": " + exprStr(call.Fun) + "(" + exprStr(call.Args[0]) + ", ...)")
			if len(call.Args) != 3 {
				c.Undecided(rule, cons, call.Pos(), m, "unexpected arity")
				continue
			}
			arg := call.Args[2]
			switch {
			case c32isField(info, arg, e.syncW):
				c.OK(rule, cons, call.Pos(), m, "cfg.syncWrites")
			case e.renamesFile(f, c32identObj(info, call.Args[0])):
				c.OK(rule, cons, call.Pos(), m, "temp file, synced as a whole before its rename (temp-synced-before-rename)")
			default:
				c.Fail(rule, cons, call.Pos(), m, "the entry is appended with sync = `"+exprStr(arg)+"` instead of cfg.syncWrites on a file that is not a temp file synced before a rename: with SyncWrites an acknowledged entry is not on disk when the acknowledgement is sent")
			}
		}
	}
	c.Floor(rule, n, 5)
}

// ---- (4) temp + rename ----

type c33open struct {
	call  *ast.CallExpr
	file  types.Object
	path  ast.Expr
	flags int64
	hasFl bool
}

func (e *c33env) isFSCall(info *types.Info, call *ast.CallExpr, name string) bool {
	o, ok := calleeObj(info, call).(*types.Func)
	if !ok || o.Name() != name {
		return false
	}
	sig := o.Type().(*types.Signature)
	if sig.Recv() == nil {
		return false
	}
	t := sig.Recv().Type()
	if n, ok := t.(*types.Named); ok {
		return n.Obj().Name() == "fs" && n.Obj().Pkg() != nil && n.Obj().Pkg().Name() == c32pkg
	}
	return false
}

func (e *c33env) opens(f *Func) []c33open {
	info := f.Info()
	var out []c33open
	ast.Inspect(f.Decl.Body, func(x ast.Node) bool {
		call, ok := x.(*ast.CallExpr)
		if !ok || !e.isFSCall(info, call, "OpenFile") || len(call.Args) != 3 {
			return true
		}
		o := c33open{call: call, path: call.Args[0]}
		o.flags, o.hasFl = constInt(info, call.Args[1])
		if as, ok := enclosingStmt(f.Decl.Body, call).(*ast.AssignStmt); ok && len(as.Lhs) == 2 && len(as.Rhs) == 1 && unparen(as.Rhs[0]) == ast.Expr(call) {
			o.file = c32identObj(info, as.Lhs[0])
		}
		out = append(out, o)
		return true
	})
	return out
}

// tmpOf: path expression is a local whose single definition is X + "….tmp"; returns X.
func c33tmpOf(f *Func, path ast.Expr) (ast.Expr, bool) {
	info := f.Info()
	o := c32identObj(info, path)
	if o == nil {
		return nil, false
	}
	def := singleDef(f, o)
	b, ok := unparen(def).(*ast.BinaryExpr)
	if def == nil || !ok || b.Op != token.ADD {
		return nil, false
	}
	tv, ok := info.Types[b.Y]
	if !ok || tv.Value == nil || tv.Value.Kind() != constant.String || !strings.HasSuffix(constant.StringVal(tv.Value), ".tmp") {
		return nil, false
	}
	return b.X, true
}

func (e *c33env) renames(f *Func) []*ast.CallExpr {
	var out []*ast.CallExpr
	info := f.Info()
	ast.Inspect(f.Decl.Body, func(x ast.Node) bool {
		if call, ok := x.(*ast.CallExpr); ok && e.isFSCall(info, call, "Rename") && len(call.Args) == 2 {
			out = append(out, call)
		}
		return true
	})
	return out
}

// renamesFile: f renames the path the file object was opened at.
func (e *c33env) renamesFile(f *Func, file types.Object) bool {
	if file == nil {
		return false
	}
	info := f.Info()
	for _, o := range e.opens(f) {
		if o.file != file {
			continue
		}
		for _, r := range e.renames(f) {
			if c32identObj(info, r.Args[0]) != nil && c32identObj(info, r.Args[0]) == c32identObj(info, o.path) {
				return true
			}
		}
	}
	return false
}

func (e *c33env) tempRename() {
	c, m := e.c, e.m
	rule := "temp-synced-before-rename"
	we := m.Object(c32pkg, "writeEntry")
	ap := m.Object(c32pkg, "appendLogEntry")
	n := 0
	for _, f := range e.funcs {
		if sig := f.Obj.Type().(*types.Signature); sig.Recv() != nil {
			if rn := recvTypeName(f.Decl.Recv.List[0].Type); rn == "osFS" || rn == "memFS" {
				continue
			}
		}
		info := f.Info()
		rens := e.renames(f)
		if len(rens) == 0 {
			continue
		}
		c.Touch(f)
		g := f.Graph()
		edges := e.syncTrueEdges(f, g)
		opens := e.opens(f)
		for _, r := range rens {
			n++
			cons := e.keys.uniq(f.Key + ": Rename(" + exprStr(r.Args[0]) + ", " + exprStr(r.Args[1]) + ")")
			if _, ok := g.LocOf(r); !ok {
				c.Undecided(rule, cons, r.Pos(), m, "the rename is inside a function literal: not analysed")
				continue
			}
			// tmp = final + ".tmp"
			base, isTmp := c33tmpOf(f, r.Args[0])
			c.Check(isTmp && exprStr(base) == exprStr(r.Args[1]), rule, cons+"#tmp-name", r.Pos(), m, "final + \".tmp\"", "the renamed source is not `<final> + \".tmp\"`: startup removes only *.tmp leftovers, and a rename between unrelated paths is not an atomic replace of the final file")
			var file types.Object
			var op *c33open
			for i := range opens {
				if c32identObj(info, opens[i].path) != nil && c32identObj(info, opens[i].path) == c32identObj(info, r.Args[0]) {
					file, op = opens[i].file, &opens[i]
				}
			}
			if file == nil {
				c.Undecided(rule, cons, r.Pos(), m, "the renamed temp file is not opened (f, err := fs.OpenFile(tmp, ...)) in this function: cannot follow its writes")
				continue
			}
			c.Check(op.hasFl && op.flags&e.osC["O_TRUNC"] != 0 && op.flags&e.osC["O_CREATE"] != 0, rule, cons+"#tmp-truncated", op.call.Pos(), m, "O_CREATE|O_TRUNC", "the temp file is not opened with O_CREATE|O_TRUNC: bytes of an earlier interrupted attempt can remain behind the new content and are renamed into place")
			onF := func(x ast.Expr) bool { return c32identObj(info, x) == file }
			// dirty write events
			isDirtyCall := func(cl *ast.CallExpr, deep bool) bool {
				if c33methodCallOn(cl, "Write", onF) {
					return true
				}
				if (isCallTo(info, cl, we) || isCallTo(info, cl, ap)) && len(cl.Args) == 3 && onF(cl.Args[0]) {
					return !c32isField(info, cl.Args[2], e.syncW)
				}
				return false
			}
			closures := map[types.Object]bool{}
			ast.Inspect(f.Decl.Body, func(x ast.Node) bool {
				as, ok := x.(*ast.AssignStmt)
				if !ok || len(as.Lhs) != 1 || len(as.Rhs) != 1 {
					return true
				}
				lit, ok := unparen(as.Rhs[0]).(*ast.FuncLit)
				if !ok {
					return true
				}
				if containsNode(lit.Body, true, func(y ast.Node) bool { cl, ok := y.(*ast.CallExpr); return ok && isDirtyCall(cl, true) }) {
					if o := c32identObj(info, as.Lhs[0]); o != nil {
						closures[o] = true
					}
				}
				return true
			})
			var dirty []ast.Node
			for _, dn := range findNodes(f.Decl.Body, false, func(x ast.Node) bool {
				cl, ok := x.(*ast.CallExpr)
				if !ok {
					return false
				}
				if isDirtyCall(cl, false) {
					return true
				}
				o := c32identObj(info, cl.Fun)
				return o != nil && closures[o]
			}) {
				if _, ok := g.LocOf(dn); ok {
					dirty = append(dirty, dn)
				}
			}
			// a function literal that writes but is never bound to a local we can follow
			unknownLit := false
			ast.Inspect(f.Decl.Body, func(x ast.Node) bool {
				if lit, ok := x.(*ast.FuncLit); ok {
					if containsNode(lit.Body, true, func(y ast.Node) bool { cl, ok := y.(*ast.CallExpr); return ok && isDirtyCall(cl, true) }) {
						bound := false
						for o := range closures {
							if def := singleDef(f, o); def != nil && unparen(def) == ast.Expr(lit) {
								bound = true
							}
						}
						if !bound {
							unknownLit = true
						}
					}
				}
				return true
			})
			if unknownLit {
				c.Undecided(rule, cons, r.Pos(), m, "a function literal writes the temp file but is not a singly-defined local closure: its call sites cannot be followed")
				continue
			}
			isRen := func(nd ast.Node) bool {
				return containsNode(nd, false, func(y ast.Node) bool { return y == ast.Node(r) })
			}
			bad := ""
			for _, d := range dirty {
				dl, _ := g.LocOf(d)
				if p, found := g.FindPath(dl, SearchOpts{
					Stop:     func(nd ast.Node) bool { return c33hasMethodCall(nd, "Sync", onF) },
					GoalNode: isRen,
					EdgeOK:   edges,
				}); found {
					bad = nodeStr(enclosingStmt(f.Decl.Body, d)) + " -> " + pathStr(p)
					break
				}
			}
			c.Check(bad == "", rule, cons, r.Pos(), m, fmt.Sprintf("%d unsynced write sites, each followed by Sync before the rename", len(dirty)),
				"with SyncWrites the temp file is renamed over "+exprStr(r.Args[1])+" on a path where data written to it was not fsynced ("+bad+"): a stop after the rename leaves the final file empty or torn while the previous, durable version is already gone - every acknowledged entry in it is lost")
		}
	}
	c.Floor(rule, n, 4)
}

func (e *c33env) openFlags() {
	c, m := e.c, e.m
	rule := "no-truncating-open-of-final-path"
	live := map[string]bool{"kfake.Cluster.openSegmentFiles": true, "kfake.Cluster.persistGroupEntry": true, "kfake.Cluster.persistPIDEntry": true}
	n, nlive := 0, 0
	for _, f := range e.funcs {
		if f.Decl.Recv != nil {
			if rn := recvTypeName(f.Decl.Recv.List[0].Type); rn == "osFS" || rn == "memFS" {
				continue
			}
		}
		for _, o := range e.opens(f) {
			n++
			c.Touch(f)
			cons := e.keys.uniq(f.Key + ": OpenFile(" + exprStr(o.path) + ")")
			if !o.hasFl {
				c.Undecided(rule, cons, o.call.Pos(), m, "open flags are not a constant")
				continue
			}
			trunc := o.flags&e.osC["O_TRUNC"] != 0
			if live[f.Key] {
				nlive++
				c.Check(!trunc && o.flags&e.osC["O_APPEND"] != 0 && o.flags&e.osC["O_CREATE"] != 0, "live-logs-opened-append", cons, o.call.Pos(), m, "O_CREATE|O_APPEND", "a live log file (segment, index, groups.log, pids.log) is not opened O_CREATE|O_APPEND without O_TRUNC: reopening it after a restart, a roll or a compaction destroys or overwrites acknowledged entries")
				continue
			}
			if !trunc {
				c.OK(rule, cons, o.call.Pos(), m, "no O_TRUNC")
				continue
			}
			if _, isTmp := c33tmpOf(f, o.path); isTmp {
				c.OK(rule, cons, o.call.Pos(), m, "temp file")
				continue
			}
			if f.Key == "kfake.Cluster.rebuildSegments" {
				c.OK(rule, cons, o.call.Pos(), m, "compaction rewrite (stated exception, see observations)")
				continue
			}
			c.Fail(rule, cons, o.call.Pos(), m, "a final path is opened with O_TRUNC: between the open and the end of the rewrite the only copy of the file is empty or partial, a stop there loses every acknowledged entry in it (write to <path>.tmp, sync, rename instead)")
		}
	}
	c.Floor(rule, n, 13)
	c.Floor("live-logs-opened-append", nlive, 4)
}

// ---- (5) committed offsets and topics ----

func (e *c33env) commitsPersisted() {
	c, m := e.c, e.m
	rule := "commits-changed-only-with-persist"
	commits := m.Field(c32pkg, "group", "commits")
	pge := m.Method(c32pkg, "Cluster", "persistGroupEntry")
	if commits == nil || pge == nil {
		c.Undecided("anchor", "kfake.group.commits / persistGroupEntry", token.NoPos, m, "not found")
		return
	}
	allowed := map[string]string{"kfake.group.commitAndPersist": "set", "kfake.group.deleteCommitAndPersist": "delp"}
	n := 0
	for _, f := range e.funcs {
		info := f.Info()
		for _, cn := range findNodes(f.Decl.Body, true, func(x ast.Node) bool {
			cl, ok := x.(*ast.CallExpr)
			if !ok {
				return false
			}
			sel, ok := unparen(cl.Fun).(*ast.SelectorExpr)
			if !ok || !c32isField(info, sel.X, commits) {
				return false
			}
			switch sel.Sel.Name {
			case "set", "delp", "mkp", "mkpDefault", "mkt":
				return true
			}
			return false
		}) {
			call := cn.(*ast.CallExpr)
			name := call.Fun.(*ast.SelectorExpr).Sel.Name
			n++
			c.Touch(f)
			cons := e.keys.uniq(f.Key + ": commits." + name)
			if f.Key == "kfake.Cluster.loadGroupsLog" {
				c.OK(rule, cons, call.Pos(), m, "loader")
				continue
			}
			if allowed[f.Key] != name {
				c.Fail(rule, cons, call.Pos(), m, "the committed-offset map is changed outside commitAndPersist / deleteCommitAndPersist: the change is acknowledged to the client but never appended to groups.log, so a restart recovers the previous offset")
				continue
			}
			p, found, ok := c32escapes(f, call, func(nd ast.Node) bool { return c32hasCall(info, nd, pge) }, nil, nil)
			if !ok {
				c.Undecided(rule, cons, call.Pos(), m, "call not in the CFG")
				continue
			}
			c.Check(!found, rule, cons, call.Pos(), m, "followed by persistGroupEntry", "the committed offset is changed and the function can return without persistGroupEntry ("+pathStr(p)+")")
			// same key persisted
			for _, pc := range callsTo(f.Decl.Body, info, pge, false) {
				okArgs := false
				if len(pc.Args) == 1 {
					switch a := unparen(pc.Args[0]).(type) {
					case *ast.CallExpr: // g.commitEntry(topic, part, oc)
						okArgs = len(a.Args) == len(call.Args)
						for i := range a.Args {
							if okArgs && exprStr(a.Args[i]) != exprStr(call.Args[i]) {
								okArgs = false
							}
						}
					case *ast.CompositeLit: // groupLogEntry{Type: "delete", Topic: topic, Part: part}
						vals := map[string]string{}
						for _, el := range a.Elts {
							if kv, ok := el.(*ast.KeyValueExpr); ok {
								vals[exprStr(kv.Key)] = exprStr(kv.Value)
							}
						}
						okArgs = len(call.Args) == 2 && vals["Topic"] == exprStr(call.Args[0]) && vals["Part"] == exprStr(call.Args[1]) && vals["Type"] == `"delete"`
					}
				}
				c.Check(okArgs, rule, cons+"#same-key", pc.Pos(), m, "", "the persisted entry `"+exprStr(pc.Args[0])+"` is not built from the same (topic, partition, commit) that was stored in memory")
			}
		}
	}
	c.Floor(rule, n, 3)
	// commitEntry carries the offset; persistGroupEntry appends its parameter
	if ce := c.NeedFunc(m, "kfake.group.commitEntry"); ce != nil {
		okOff := false
		ast.Inspect(ce.Decl.Body, func(x ast.Node) bool {
			if kv, ok := x.(*ast.KeyValueExpr); ok && exprStr(kv.Key) == "Offset" && c32fieldNamed(ce.Info(), kv.Value, "offsetCommit", "offset") {
				okOff = true
			}
			return true
		})
		c.Check(okOff, rule, ce.Key+"#Offset", ce.Pos(), m, "", "the commit log entry does not carry the committed offset (Offset: oc.offset)")
	}
	if pf := c.NeedFunc(m, "kfake.Cluster.persistGroupEntry"); pf != nil {
		ap := m.Object(c32pkg, "appendLogEntry")
		param := pf.Obj.Type().(*types.Signature).Params().At(0)
		n2 := 0
		for _, call := range callsTo(pf.Decl.Body, pf.Info(), ap, false) {
			n2++
			c.Check(len(call.Args) == 3 && c32identObj(pf.Info(), call.Args[1]) == param, rule, pf.Key+"#appends-parameter", call.Pos(), m, "", "persistGroupEntry appends `"+exprStr(call.Args[1])+"`, not the entry it was given")
		}
		c.Floor(rule+"/append", n2, 1)
	}
}

func (e *c33env) topicsPersisted() {
	c, m := e.c, e.m
	rule := "topic-create-persisted"
	mkt := m.Method(c32pkg, "data", "mkt")
	tpsF := m.Field(c32pkg, "data", "tps")
	pts := m.Method(c32pkg, "Cluster", "persistTopicsState")
	save := m.Method(c32pkg, "Cluster", "saveToDisk")
	if mkt == nil || tpsF == nil || pts == nil || save == nil {
		c.Undecided("anchor", "kfake data.mkt / data.tps / persistTopicsState / saveToDisk", token.NoPos, m, "not found")
		return
	}
	persistM := m.Method(c32pkg, "Cluster", "persist")
	n := 0
	for _, f := range e.funcs {
		if f.Key == "kfake.data.mkt" || f.Key == "kfake.Cluster.loadTopics" {
			continue
		}
		info := f.Info()
		for _, cn := range findNodes(f.Decl.Body, true, func(x ast.Node) bool {
			cl, ok := x.(*ast.CallExpr)
			if !ok {
				return false
			}
			if isCallTo(info, cl, mkt) {
				return true
			}
			sel, ok := unparen(cl.Fun).(*ast.SelectorExpr)
			return ok && (sel.Sel.Name == "mkp" || sel.Sel.Name == "mkt" || sel.Sel.Name == "mkpDefault" || sel.Sel.Name == "set") && c32isField(info, sel.X, tpsF)
		}) {
			call := cn.(*ast.CallExpr)
			n++
			c.Touch(f)
			cons := e.keys.uniq(f.Key + ": " + exprStr(call.Fun))
			g := f.GraphFor(call)
			// persistence enabled: prune the false edge of `if c.persist()`
			// ... and edges that contradict a call-free fact holding at the creation
			// (the same request flag tested again after the loop)
			var held []Fact
			if cl, ok := g.LocOf(call); ok {
				for _, ft := range g.FactsAt(cl) {
					if ft.Tag == nil && !containsNode(ft.Cond, true, func(y ast.Node) bool { _, isC := y.(*ast.CallExpr); return isC }) {
						held = append(held, ft)
					}
				}
			}
			edges := func(from *cfg.Block, k int, to *cfg.Block) bool {
				cond, tag, ok := g.condOf(from)
				if !ok || tag != nil {
					return true
				}
				if cl, isC := unparen(cond).(*ast.CallExpr); isC && persistM != nil && isCallTo(info, cl, persistM) {
					return k == 0
				}
				for _, ft := range decompose(cond, k == 0, nil) {
					for _, h := range held {
						if h.Val != ft.Val && exprStr(h.Cond) == exprStr(ft.Cond) {
							return false
						}
					}
				}
				return true
			}
			p, found, ok := c32escapes(f, call, func(nd ast.Node) bool { return c32hasCall(info, nd, pts) || c32hasCall(info, nd, save) }, nil, edges)
			if !ok {
				c.Undecided(rule, cons, call.Pos(), m, "call not in the CFG")
				continue
			}
			c.Check(!found, rule, cons, call.Pos(), m, "followed by persistTopicsState / saveToDisk", "a topic (or partition) is created in memory and the handler can return without persistTopicsState ("+pathStr(p)+"): topics.json does not list it, so after a stop the restart does not load its partition directory - every produce acknowledged to that topic is missing from the recovered state")
		}
	}
	c.Floor(rule, n, 5)
}

// ---- (6) torn entries ----

// loopEscapesWithout: a path from the start of the loop body back to the loop
// head that does not pass `stop`.
func c33loopSkips(g *Graph, loop *ast.ForStmt, stop func(ast.Node) bool) ([]ast.Node, bool) {
	var head, body *cfg.Block
	for _, b := range g.C.Blocks {
		if b.Stmt != ast.Stmt(loop) {
			continue
		}
		switch b.Kind {
		case cfg.KindForLoop:
			head = b
		case cfg.KindForBody:
			body = b
		}
	}
	if body == nil {
		return nil, true
	}
	if head == nil {
		head = body // `for {` has no separate condition block
	}
	var post *cfg.Block
	for _, b := range g.C.Blocks {
		if b.Stmt == ast.Stmt(loop) && b.Kind == cfg.KindForPost {
			post = b
		}
	}
	return g.FindPath(Loc{B: int(body.Index), I: -1}, SearchOpts{
		Stop:      stop,
		GoalBlock: func(b *cfg.Block) bool { return b == head || (post != nil && b == post) },
	})
}

func (e *c33env) tornReaders() {
	c, m := e.c, e.m
	rule := "reader-stops-at-torn-entry"
	type spec struct {
		key, acc string
	}
	n := 0
	for _, sp := range []spec{{"kfake.readEntries", "entries"}, {"kfake.Cluster.loadSegmentBatches", "result"}} {
		f := c.NeedFunc(m, sp.key)
		if f == nil {
			continue
		}
		info := f.Info()
		g := f.Graph()
		acc := localObj(f, sp.acc)
		if acc == nil {
			// named result
			if f.Decl.Type.Results != nil {
				for _, fl := range f.Decl.Type.Results.List {
					for _, id := range fl.Names {
						if id.Name == sp.acc {
							acc = info.Defs[id]
						}
					}
				}
			}
		}
		isAppend := func(nd ast.Node) bool {
			as, ok := nd.(*ast.AssignStmt)
			if !ok || len(as.Lhs) != 1 || len(as.Rhs) != 1 || acc == nil || c32identObj(info, as.Lhs[0]) != acc {
				return false
			}
			cl, ok := unparen(as.Rhs[0]).(*ast.CallExpr)
			return ok && exprStr(cl.Fun) == "append"
		}
		var loop *ast.ForStmt
		var app *ast.AssignStmt
		pm := parentMap(f.Decl.Body)
		ast.Inspect(f.Decl.Body, func(x ast.Node) bool {
			if isAppend(x) {
				for p := pm[x]; p != nil; p = pm[p] {
					if fs, ok := p.(*ast.ForStmt); ok {
						loop, app = fs, x.(*ast.AssignStmt)
						break
					}
				}
			}
			return true
		})
		if loop == nil {
			c.Undecided(rule, f.Key+"#loop", f.Pos(), m, "no `for` loop appending to "+sp.acc+" found")
			continue
		}
		n++
		p, found := c33loopSkips(g, loop, func(nd ast.Node) bool { return isAppend(nd) })
		c.Check(!found, rule, f.Key+"#no-skip", loop.Pos(), m, "every iteration appends or leaves the loop", "the reader can go on to the next entry without having accepted the current one ("+pathStr(p)+"): after a torn or corrupt entry it resynchronises on arbitrary bytes and exposes partially written data (or drops the valid prefix rule `stop at the first bad entry`)")
		// facts at the append
		al, _ := g.LocOf(app)
		facts := g.FactsAt(al)
		lenBound := factMatches(facts, func(ft Fact) bool {
			x, y, op, ok := c32cmp(ft)
			if !ok {
				return false
			}
			isLen := func(z ast.Expr) bool {
				cl, ok := unparen(z).(*ast.CallExpr)
				return ok && exprStr(cl.Fun) == "len" && len(cl.Args) == 1
			}
			return (op == token.LEQ && isLen(y)) || (op == token.GEQ && isLen(x))
		})
		c.Check(lenBound, rule, f.Key+"#complete-entry", app.Pos(), m, "entry end <= len(raw)", "an entry is accepted without the fact that it lies completely inside the file (facts: "+c32factsStr(facts)+"): a partially written tail entry becomes visible")
		if sp.key == "kfake.readEntries" {
			crc := factMatches(facts, func(ft Fact) bool {
				x, y, op, ok := c32cmp(ft)
				if !ok || op != token.EQL {
					return false
				}
				has := func(z ast.Expr) bool {
					return containsNode(z, false, func(w ast.Node) bool {
						cl, ok := w.(*ast.CallExpr)
						if !ok {
							return false
						}
						o, _ := calleeObj(info, cl).(*types.Func)
						return o != nil && o.Pkg() != nil && o.Pkg().Path() == "hash/crc32" && o.Name() == "Checksum"
					})
				}
				return has(x) || has(y)
			})
			c.Check(crc, rule, f.Key+"#crc", app.Pos(), m, "CRC verified", "an entry is accepted without the fact that its CRC matched: a torn write inside an entry is replayed as state")
		} else {
			dec := m.Object(c32pkg, "decodeBatchRaw")
			var errObj types.Object
			ast.Inspect(loop, func(x ast.Node) bool {
				if as, ok := x.(*ast.AssignStmt); ok && len(as.Lhs) == 2 && len(as.Rhs) == 1 {
					if cl, ok := unparen(as.Rhs[0]).(*ast.CallExpr); ok && isCallTo(info, cl, dec) {
						errObj = c32identObj(info, as.Lhs[1])
					}
				}
				return true
			})
			okd := errObj != nil && c32factCmp(facts, token.EQL, func(x ast.Expr) bool { return c32identObj(info, x) == errObj }, c33isNil)
			c.Check(okd, rule, f.Key+"#crc", app.Pos(), m, "decodeBatchRaw (CRC) succeeded", "a batch is accepted without the fact that decodeBatchRaw (CRC check) succeeded")
			// torn tail truncated
			okT := false
			for _, tn := range findNodes(f.Decl.Body, false, func(x ast.Node) bool {
				cl, ok := x.(*ast.CallExpr)
				return ok && c33methodCallOn(cl, "Truncate", func(ast.Expr) bool { return true })
			}) {
				tl, _ := g.LocOf(tn)
				cl := tn.(*ast.CallExpr)
				if len(cl.Args) == 1 && exprStr(c32strip(info, cl.Args[0])) == "pos" && factMatches(g.FactsAt(tl), func(ft Fact) bool {
					x, y, op, ok := c32cmp(ft)
					return ok && op == token.LSS && exprStr(x) == "pos" && strings.HasPrefix(exprStr(y), "len(")
				}) {
					// ... and under nothing else about pos: a torn FIRST batch (pos == 0)
					// must be cut off too, the next append reuses the file with O_APPEND
					extra := ""
					for _, ft := range g.FactsAt(tl) {
						x, y, op, ok := c32cmp(ft)
						if ok && op == token.LSS && exprStr(x) == "pos" && strings.HasPrefix(exprStr(y), "len(") {
							continue
						}
						if containsNode(ft.Cond, false, func(z ast.Node) bool { id, isID := z.(*ast.Ident); return isID && id.Name == "pos" }) {
							extra = nosp(exprStr(ft.Cond))
						}
					}
					if extra == "" {
						okT = true
					} else {
						c.Fail(rule, f.Key+"#torn-tail-truncated-unconditionally", tn.Pos(), m, "the torn tail is truncated only under `"+extra+"`: a segment whose very first batch is torn keeps its garbage bytes, the next acknowledged produce is appended behind them (indexed at position 0) and is unreadable")
					}
				}
			}
			c.Check(okT, rule, f.Key+"#torn-tail-truncated", f.Pos(), m, "Truncate(pos) when pos < len(raw)", "the torn tail of a segment is not cut off at the end of the last valid batch: the next append lands behind garbage and is unreadable after the following restart")
		}
	}
	c.Floor(rule, n, 2)
	// decodeBatchRaw verifies the CRC
	if d := c.NeedFunc(m, "kfake.decodeBatchRaw"); d != nil {
		g := d.Graph()
		ok := false
		for _, rn := range findNodes(d.Decl.Body, false, func(x ast.Node) bool { _, ok := x.(*ast.ReturnStmt); return ok }) {
			r := rn.(*ast.ReturnStmt)
			rl, _ := g.LocOf(r)
			if len(r.Results) == 2 && !c33isNil(r.Results[1]) && factMatches(g.FactsAt(rl), func(ft Fact) bool {
				_, _, op, okc := c32cmp(ft)
				return okc && op == token.NEQ && containsNode(ft.Cond, false, func(w ast.Node) bool {
					id, isI := w.(*ast.Ident)
					return isI && (id.Name == "computed" || id.Name == "Checksum")
				})
			}) {
				ok = true
			}
		}
		c.Check(ok, rule, d.Key+"#crc-mismatch-is-error", d.Pos(), m, "", "decodeBatchRaw does not return an error when the stored and computed CRC differ")
	}
}

func (e *c33env) snapshotMatch() {
	c, m := e.c, e.m
	rule := "snapshot-accepted-only-if-segments-equal"
	f := c.NeedFunc(m, "kfake.snapshotMatchesSegments")
	if f == nil {
		return
	}
	info := f.Info()
	g := f.Graph()
	type eq struct {
		name string
		l, r func(ast.Expr) bool
	}
	isLenOf := func(pred func(ast.Expr) bool) func(ast.Expr) bool {
		return func(x ast.Expr) bool {
			cl, ok := unparen(x).(*ast.CallExpr)
			return ok && exprStr(cl.Fun) == "len" && len(cl.Args) == 1 && pred(cl.Args[0])
		}
	}
	segFiles := c32paramByName(f, "segFiles")
	isSegFiles := func(x ast.Expr) bool { return segFiles != nil && c32identObj(info, x) == segFiles }
	checks := []eq{
		{"segment count", isLenOf(func(x ast.Expr) bool { return c32fieldNamed(info, x, "persistPartSnapshot", "Segments") }), isLenOf(isSegFiles)},
		{"base offset", func(x ast.Expr) bool { return c32fieldNamed(info, x, "persistSegmentInfo", "BaseOffset") }, func(x ast.Expr) bool {
			ix, ok := unparen(x).(*ast.IndexExpr)
			return ok && isSegFiles(ix.X)
		}},
		{"file size", func(x ast.Expr) bool {
			cl, ok := unparen(x).(*ast.CallExpr)
			return ok && c33methodCallOn(cl, "Size", func(ast.Expr) bool { return true })
		}, func(x ast.Expr) bool { return c32fieldNamed(info, x, "persistSegmentInfo", "Size") }},
	}
	for _, ck := range checks {
		ck := ck
		// search a path from entry to `return true` on which no edge asserts the equality
		asserts := func(from *cfg.Block, k int) bool {
			cond, tag, ok := g.condOf(from)
			if !ok || tag != nil {
				return false
			}
			return c32factCmp(decompose(cond, k == 0, nil), token.EQL, ck.l, ck.r)
		}
		// For per-segment equalities the path must assert it in the iteration: we
		// require that every path from function entry / loop head to `return true`
		// or back to the loop head passes an asserting edge.
		found := false
		var pth []ast.Node
		starts := []Loc{{B: -1}}
		var loopHead *cfg.Block
		for _, b := range g.C.Blocks {
			if b.Kind == cfg.KindRangeLoop {
				loopHead = b
			}
		}
		perSeg := ck.name != "segment count"
		if perSeg {
			if loopHead == nil {
				c.Undecided(rule, f.Key+": "+ck.name, f.Pos(), m, "no range loop over the snapshot's segments")
				continue
			}
			starts = []Loc{{B: int(loopHead.Index), I: len(loopHead.Nodes) - 1}}
		}
		for _, s := range starts {
			p, ok := g.FindPath(s, SearchOpts{
				EdgeOK: func(from *cfg.Block, k int, to *cfg.Block) bool {
					if perSeg && from == loopHead && k != 0 {
						return false // start inside the body
					}
					return !asserts(from, k)
				},
				GoalExit: func(k ExitKind, last ast.Node) bool {
					r, isR := last.(*ast.ReturnStmt)
					if !isR || len(r.Results) != 1 {
						return false
					}
					v, isC := constBool(info, r.Results[0])
					return !isC || v
				},
				GoalBlock: func(b *cfg.Block) bool { return perSeg && b == loopHead },
			})
			if ok {
				found, pth = true, p
			}
		}
		c.Check(!found, rule, f.Key+": "+ck.name, f.Pos(), m, "equality asserted on every accepting path", "the partition snapshot can be accepted without the "+ck.name+" of every segment being EQUAL to what the snapshot recorded ("+pathStr(pth)+"): a snapshot from the last clean shutdown is used although batches were appended (and acknowledged) afterwards - the recovered high watermark is stale, the newer records are not served and the next append reuses their offsets")
	}
	c.Floor(rule, len(checks), 3)
	// the loader consults it before using the snapshot
	lp := c.NeedFunc(m, "kfake.Cluster.loadPartition")
	fromSnap := m.Method(c32pkg, "Cluster", "loadPartitionFromSnapshot")
	if lp != nil && fromSnap != nil {
		lg := lp.Graph()
		n := 0
		for _, call := range callsTo(lp.Decl.Body, lp.Info(), fromSnap, false) {
			n++
			l, _ := lg.LocOf(call)
			ok := factMatches(lg.FactsAt(l), func(ft Fact) bool {
				cl, isC := unparen(ft.Cond).(*ast.CallExpr)
				return ft.Tag == nil && ft.Val && isC && isCallTo(lp.Info(), cl, f.Obj)
			})
			c.Check(ok, rule, lp.Key+": loadPartitionFromSnapshot", call.Pos(), m, "under snapshotMatchesSegments", "the snapshot is used without snapshotMatchesSegments having returned true")
		}
		c.Floor(rule+"/use", n, 1)
	}
}

func c32paramByName(f *Func, name string) types.Object {
	sig := f.Obj.Type().(*types.Signature)
	for i := 0; i < sig.Params().Len(); i++ {
		if sig.Params().At(i).Name() == name {
			return sig.Params().At(i)
		}
	}
	return nil
}
