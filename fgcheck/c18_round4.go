package main

import (
	"go/ast"
	"go/constant"
	"go/token"
	"go/types"

	"golang.org/x/tools/go/cfg"
)

// Round-4 rules of C18: "zstd only from produce v7".
//
// A zstd batch (attribute codec 4) is only a valid batch in a produce request
// of version >= 7.  The client enforces that in three places that must agree:
//
//  (a) mkCompressFlags(version) hands CompressDisableZstd to the compressor for
//      every version < 7                                   [c18flagsBelowV7]
//  (b) seqRecBatch.appendTo / appendToAsMessageSet call Compress with exactly
//      mkCompressFlags(<their version parameter>)..., and produceRequest.AppendTo
//      passes the request's version field to them            [c18flagsPassed]
//  (c) (*compressor).Compress: the flag loop turns a CompressDisableZstd element
//      into the disable variable on every path, and the selected codec (the
//      variable the compression switch dispatches on and that is returned as
//      the written codec) is never stored from an option while
//      `option == CodecZstd && disabled` holds               [c18zstdRefused]
//
// (c) is decided on the CFG: starting at the function entry, edges that are
// infeasible under {X == CodecZstd, disabled} are removed (three-valued
// evaluation of every branch condition, tag-switch case edges included); a
// store `use = X` that is still reachable is a path on which a disabled zstd
// is selected.

func c18constObj(m *Module, name string) (types.Object, int64, bool) {
	o := m.Object("kgo", name)
	cn, ok := o.(*types.Const)
	if !ok {
		return nil, 0, false
	}
	v, exact := constant.Int64Val(constant.ToInt(cn.Val()))
	return o, v, exact
}

func c18objOf(info *types.Info, e ast.Expr) types.Object {
	switch x := unparen(e).(type) {
	case *ast.Ident:
		if o := info.Uses[x]; o != nil {
			return o
		}
		return info.Defs[x]
	case *ast.SelectorExpr:
		return info.Uses[x.Sel]
	}
	return nil
}

// c18assumeEdges builds an edge filter from a three-valued evaluation of the
// branch conditions: atom classifies boolean atoms, tagCase classifies the
// `tag == caseExpr` test of a tag switch.
func c18assumeEdges(g *Graph, f *Func, atom func(e ast.Expr) (tri, bool), tagCase func(tag, ce ast.Expr) tri) func(from *cfg.Block, k int, to *cfg.Block) bool {
	env := &triEnv{f: f, atom: atom}
	info := f.Info()
	return func(from *cfg.Block, k int, to *cfg.Block) bool {
		if len(from.Succs) != 2 || len(from.Nodes) == 0 {
			return true
		}
		last, ok := from.Nodes[len(from.Nodes)-1].(ast.Expr)
		if !ok {
			return true
		}
		v := triU
		if from.Succs[0].Kind == cfg.KindSwitchCaseBody {
			cond, tag, ok := g.condOf(from)
			if !ok {
				return true
			}
			if tag != nil {
				if tagCase != nil {
					v = tagCase(tag, cond)
				}
			} else {
				v = env.eval(cond)
			}
		} else {
			tv, ok := info.Types[last]
			if !ok || tv.Type == nil {
				return true
			}
			if b, isB := tv.Type.Underlying().(*types.Basic); !isB || b.Info()&types.IsBoolean == 0 {
				return true
			}
			v = env.eval(last)
		}
		switch v {
		case triT:
			return k == 0
		case triF:
			return k == 1
		}
		return true
	}
}

// c18cmpConst: e is `X op K` / `K op X` with X resolving to obj and K an integer constant;
// returns op normalised to `X op K`.
func c18cmpConst(info *types.Info, e ast.Expr, obj types.Object) (token.Token, int64, bool) {
	be, ok := unparen(e).(*ast.BinaryExpr)
	if !ok {
		return 0, 0, false
	}
	flip := map[token.Token]token.Token{token.LSS: token.GTR, token.GTR: token.LSS, token.LEQ: token.GEQ, token.GEQ: token.LEQ, token.EQL: token.EQL, token.NEQ: token.NEQ}
	if _, isCmp := flip[be.Op]; !isCmp {
		return 0, 0, false
	}
	if c18objOf(info, unparenConv(info, be.X)) == obj {
		if k, ok := constInt(info, be.Y); ok {
			return be.Op, k, true
		}
	}
	if c18objOf(info, unparenConv(info, be.Y)) == obj {
		if k, ok := constInt(info, be.X); ok {
			return flip[be.Op], k, true
		}
	}
	return 0, 0, false
}

func c18round4(c *Ctx, m *Module) {
	zstdObj, zstdVal, ok1 := c18constObj(m, "CodecZstd")
	disObj, _, ok2 := c18constObj(m, "CompressDisableZstd")
	if !ok1 || !ok2 {
		c.Undecided("anchor", "kgo.CodecZstd / kgo.CompressDisableZstd", token.NoPos, m, "constants not found")
		return
	}
	c18flagsBelowV7(c, m, disObj)
	c18flagsPassed(c, m)
	c18zstdRefused(c, m, zstdObj, zstdVal, disObj)
}

// ---- (a) mkCompressFlags --------------------------------------------------

func c18flagsBelowV7(c *Ctx, m *Module, disObj types.Object) {
	rule := "zstd-disabled-below-produce-v7"
	f := c.NeedFunc(m, "kgo.mkCompressFlags")
	if f == nil {
		return
	}
	info := f.Info()
	g := f.Graph()
	if f.Decl.Type.Params == nil || len(f.Decl.Type.Params.List) != 1 || len(f.Decl.Type.Params.List[0].Names) != 1 {
		c.Undecided(rule, f.Key+"#signature", f.Pos(), m, "expected a single version parameter")
		return
	}
	ver := info.Defs[f.Decl.Type.Params.List[0].Names[0]]
	if len(assignsTo(f, ver)) != 0 {
		c.Undecided(rule, f.Key+"#version-reassigned", f.Pos(), m, "the version parameter is reassigned")
		return
	}
	// under version < 7 ...
	atom := func(e ast.Expr) (tri, bool) {
		op, k, ok := c18cmpConst(info, e, ver)
		if !ok {
			return triU, false
		}
		// version ranges over (-inf, 6]
		switch op {
		case token.LSS: // v < k
			if k >= 7 {
				return triT, true
			}
		case token.LEQ:
			if k >= 6 {
				return triT, true
			}
		case token.GEQ:
			if k >= 7 {
				return triF, true
			}
		case token.GTR:
			if k >= 6 {
				return triF, true
			}
		case token.EQL:
			if k >= 7 {
				return triF, true
			}
		case token.NEQ:
			if k >= 7 {
				return triT, true
			}
		}
		return triU, true
	}
	hasFlag := func(ret *ast.ReturnStmt) bool {
		if len(ret.Results) != 1 {
			return false
		}
		cl, ok := unparen(ret.Results[0]).(*ast.CompositeLit)
		if !ok {
			return false
		}
		for _, el := range cl.Elts {
			if c18objOf(info, el) == disObj {
				return true
			}
		}
		return false
	}
	nRet, nWith := 0, 0
	ast.Inspect(f.Decl.Body, func(x ast.Node) bool {
		if r, ok := x.(*ast.ReturnStmt); ok {
			nRet++
			if hasFlag(r) {
				nWith++
			}
		}
		return true
	})
	path, found := g.FindPath(Loc{B: -1}, SearchOpts{
		GoalExit: func(kind ExitKind, last ast.Node) bool {
			r, ok := last.(*ast.ReturnStmt)
			return !ok || !hasFlag(r)
		},
		EdgeOK: c18assumeEdges(g, f, atom, nil),
	})
	pos := f.Pos()
	if found && len(path) > 0 {
		pos = path[len(path)-1].Pos()
	}
	c.Check(!found && nWith >= 1, rule, f.Key+": every return for version < 7 carries CompressDisableZstd", pos, m,
		"no return without the flag is reachable when version < 7",
		"for some produce version below 7 mkCompressFlags returns flags without CompressDisableZstd: the compressor may then pick zstd and codec 4 is written into a v0-v6 produce request, which brokers reject (UNSUPPORTED_COMPRESSION_TYPE) or cannot decode")
	c.Set("mkCompressFlags-returns", nRet)
}

// ---- (b) the flags reach Compress -----------------------------------------

func c18flagsPassed(c *Ctx, m *Module) {
	rule := "compress-called-with-version-flags"
	mk := m.Object("kgo", "mkCompressFlags")
	n := 0
	for _, key := range []string{"kgo.seqRecBatch.appendTo", "kgo.seqRecBatch.appendToAsMessageSet"} {
		f := c.NeedFunc(m, key)
		if f == nil {
			continue
		}
		info := f.Info()
		// the version parameter: the parameter named in the signature whose value the callers take from produceRequest.version (checked below)
		params := map[types.Object]bool{}
		for _, fl := range f.Decl.Type.Params.List {
			for _, nm := range fl.Names {
				params[info.Defs[nm]] = true
			}
		}
		ast.Inspect(f.Decl.Body, func(x ast.Node) bool {
			call, ok := x.(*ast.CallExpr)
			if !ok {
				return true
			}
			fn, ok := calleeObj(info, call).(*types.Func)
			if !ok || fn.Name() != "Compress" {
				return true
			}
			sig, _ := fn.Type().(*types.Signature)
			if sig == nil || !sig.Variadic() || sig.Recv() == nil {
				return true
			}
			n++
			construct := f.Key + ": Compress call"
			good := false
			why := "the call passes no flags"
			if call.Ellipsis.IsValid() && len(call.Args) == sig.Params().Len() {
				last := unparen(call.Args[len(call.Args)-1])
				if mc, ok := last.(*ast.CallExpr); ok && mk != nil && calleeObj(info, mc) == mk && len(mc.Args) == 1 {
					arg := c18objOf(info, unparenConv(info, mc.Args[0]))
					if arg != nil && params[arg] && len(assignsTo(f, arg)) == 0 && f.Obj != nil {
						good = true
						c18versionArg(c, m, f, arg)
					} else {
						why = "the argument of mkCompressFlags is not the (unmodified) version parameter of " + f.Key
					}
				} else {
					why = "the variadic flags are not mkCompressFlags(version)..."
				}
			}
			c.Check(good, rule, construct, call.Pos(), m, "flags = mkCompressFlags(version parameter)...",
				why+": without CompressDisableZstd for versions below 7 a zstd preference is written into a v0-v6 produce request")
			return true
		})
	}
	c.Floor(rule+"/compress-calls", n, 2)
}

// c18versionArg: the callers in produceRequest.AppendTo pass the request's
// version field for parameter `ver` of f.
func c18versionArg(c *Ctx, m *Module, f *Func, ver types.Object) {
	rule := "compress-called-with-version-flags"
	caller := c.NeedFunc(m, "kgo.produceRequest.AppendTo")
	if caller == nil {
		return
	}
	verField := m.Field("kgo", "produceRequest", "version")
	if verField == nil {
		c.Undecided(rule, "kgo.produceRequest.version", token.NoPos, m, "field not found")
		return
	}
	sig := f.Obj.Type().(*types.Signature)
	idx := -1
	for i := 0; i < sig.Params().Len(); i++ {
		if sig.Params().At(i) == ver {
			idx = i
		}
	}
	info := caller.Info()
	calls := callsTo(caller.Decl.Body, info, f.Obj, true)
	if idx < 0 || len(calls) == 0 {
		c.Undecided(rule, f.Key+"#called-from-AppendTo", f.Pos(), m, "no call from produceRequest.AppendTo found")
		return
	}
	for _, call := range calls {
		good := false
		if idx < len(call.Args) {
			if sel, ok := unparenConv(info, call.Args[idx]).(*ast.SelectorExpr); ok && sameField(fieldOfSel(info, sel), verField) {
				good = true
			}
		}
		c.Check(good, rule, caller.Key+": version passed to "+f.Key, call.Pos(), m, "the request's version field",
			"the version handed to the batch writer is not produceRequest.version: the zstd cut-off would be taken at a different version than the one the request is written at")
	}
}

// ---- (c) Compress ----------------------------------------------------------

func c18zstdRefused(c *Ctx, m *Module, zstdObj types.Object, zstdVal int64, disObj types.Object) {
	rule := "disabled-zstd-never-selected"
	f := c.NeedFunc(m, "kgo.compressor.Compress")
	if f == nil {
		return
	}
	info := f.Info()
	g := f.Graph()
	pm := parentMap(f.Decl.Body)
	// the variadic flags parameter
	var flags types.Object
	if pl := f.Decl.Type.Params.List; len(pl) > 0 {
		lastF := pl[len(pl)-1]
		if _, isEll := lastF.Type.(*ast.Ellipsis); isEll && len(lastF.Names) == 1 {
			flags = info.Defs[lastF.Names[0]]
		}
	}
	if flags == nil {
		c.Undecided(rule, f.Key+"#flags", f.Pos(), m, "variadic flags parameter not found")
		return
	}
	// --- the disable variable: bool locals stored `true` under `flag == CompressDisableZstd` inside a range over flags
	type flagLoop struct {
		rs   *ast.RangeStmt
		elem types.Object
	}
	var loops []flagLoop
	ast.Inspect(f.Decl.Body, func(x ast.Node) bool {
		rs, ok := x.(*ast.RangeStmt)
		if !ok || c18objOf(info, rs.X) != flags {
			return true
		}
		if rs.Value != nil {
			if el := c18objOf(info, rs.Value); el != nil {
				loops = append(loops, flagLoop{rs, el})
			}
		}
		return true
	})
	isElemIsFlag := func(e ast.Expr, elem types.Object) (tri, bool) {
		be, ok := unparen(e).(*ast.BinaryExpr)
		if !ok || (be.Op != token.EQL && be.Op != token.NEQ) {
			return triU, false
		}
		a, b := c18objOf(info, be.X), c18objOf(info, be.Y)
		if (a == elem && b == disObj) || (a == disObj && b == elem) {
			if be.Op == token.EQL {
				return triT, true
			}
			return triF, true
		}
		return triU, false
	}
	var dis types.Object
	for _, lp := range loops {
		// candidate stores `D = true` in the loop body
		var store *ast.AssignStmt
		ast.Inspect(lp.rs.Body, func(x ast.Node) bool {
			as, ok := x.(*ast.AssignStmt)
			if !ok || len(as.Lhs) != 1 || len(as.Rhs) != 1 {
				return true
			}
			if v, isC := constBool(info, as.Rhs[0]); !isC || !v {
				return true
			}
			o := c18objOf(info, as.Lhs[0])
			if vv, ok := o.(*types.Var); ok && !vv.IsField() && vv.Parent() != nil && vv.Pkg() != nil && vv.Parent() != vv.Pkg().Scope() {
				store, dis = as, o
			}
			return true
		})
		if store == nil {
			continue
		}
		// every iteration whose element is the flag reaches the store: no path through the body that avoids it
		elem := lp.elem
		bodyBlock := -1
		for _, b := range g.C.Blocks {
			if b.Kind == cfg.KindRangeBody && b.Stmt == ast.Stmt(lp.rs) {
				bodyBlock = int(b.Index)
			}
		}
		if bodyBlock < 0 {
			c.Undecided(rule, f.Key+": flag loop body", lp.rs.Pos(), m, "range body block not found in the control-flow graph")
			continue
		}
		skip := false
		var skipAt token.Pos
		edges := c18assumeEdges(g, f, func(e ast.Expr) (tri, bool) { return isElemIsFlag(e, elem) }, func(tag, ce ast.Expr) tri {
			if c18objOf(info, tag) == elem {
				if c18objOf(info, ce) == disObj {
					return triT
				}
				if _, isC := constInt(info, ce); isC {
					return triF
				}
			}
			return triU
		})
		// search from the start of the body block for a way to leave the body (back to the loop head, or out) without the store
		visited := map[int]bool{}
		var walk func(b int) bool
		walk = func(b int) bool {
			if visited[b] {
				return false
			}
			visited[b] = true
			blk := g.C.Blocks[b]
			for _, nd := range blk.Nodes {
				if containsNode(nd, false, func(x ast.Node) bool { return x == ast.Node(store) }) {
					return false
				}
			}
			if len(g.succs[b]) == 0 {
				skipAt = lp.rs.Body.Pos()
				if len(blk.Nodes) > 0 {
					skipAt = blk.Nodes[len(blk.Nodes)-1].Pos()
				}
				return true
			}
			for k, s := range blk.Succs {
				if !edges(blk, k, s) {
					continue
				}
				if (s.Kind == cfg.KindRangeLoop || s.Kind == cfg.KindRangeDone) && s.Stmt == ast.Stmt(lp.rs) {
					skipAt = lp.rs.Body.Pos()
					if len(blk.Nodes) > 0 {
						skipAt = blk.Nodes[len(blk.Nodes)-1].Pos()
					}
					return true
				}
				if walk(int(s.Index)) {
					return true
				}
			}
			return false
		}
		skip = walk(bodyBlock)
		// and no element is skipped: the loop has no break / return / goto
		early := containsNode(lp.rs.Body, false, func(x ast.Node) bool {
			switch s := x.(type) {
			case *ast.ReturnStmt:
				return true
			case *ast.BranchStmt:
				return s.Tok == token.BREAK || s.Tok == token.GOTO || (s.Tok == token.CONTINUE && s.Label != nil)
			}
			return false
		})
		pos := store.Pos()
		if skip {
			pos = skipAt
		}
		c.Check(!skip && !early, rule, f.Key+": a CompressDisableZstd flag always sets the disable variable", pos, m,
			"for an element equal to CompressDisableZstd every path through the flag loop body stores true; the loop visits every element",
			"an iteration of the flag loop whose element is CompressDisableZstd can end without recording it (or the loop stops early): the flag is ignored and zstd is used below produce v7")
	}
	if dis == nil {
		c.Undecided(rule, f.Key+"#disable-variable", f.Pos(), m, "no `for ... range flags { if flag == CompressDisableZstd { <bool local> = true } }` found: how the flag is recognised changed; re-confirm the rule")
		return
	}
	// the disable variable is never reset
	for _, rhs := range assignsTo(f, dis) {
		if rhs == nil {
			c.Fail(rule, f.Key+": store to the disable variable (multi-value)", f.Pos(), m, "the disable variable is overwritten by a multi-value assignment: a CompressDisableZstd flag can be lost")
			continue
		}
		v, isC := constBool(info, rhs)
		if isC && !v && c18isDeclInit(f, dis, rhs) {
			continue
		}
		c.Check(isC && v, rule, f.Key+": store to the disable variable `"+nosp(exprStr(rhs))+"`", rhs.Pos(), m, "only ever set to true",
			"the disable variable is overwritten with something other than true: a CompressDisableZstd flag can be lost")
	}
	// --- the selected codec: tag of the switch that has a `case CodecZstd`
	var use types.Object
	var sw *ast.SwitchStmt
	ast.Inspect(f.Decl.Body, func(x ast.Node) bool {
		s, ok := x.(*ast.SwitchStmt)
		if !ok || s.Tag == nil {
			return true
		}
		for _, cc := range s.Body.List {
			for _, e := range cc.(*ast.CaseClause).List {
				if c18objOf(info, e) == zstdObj {
					if o := c18objOf(info, s.Tag); o != nil {
						use, sw = o, s
					}
				}
			}
		}
		return true
	})
	if use == nil {
		c.Undecided(rule, f.Key+"#codec-switch", f.Pos(), m, "no `switch <local> { case CodecZstd: ... }` found")
		return
	}
	_ = sw
	// every non-constant codec result is the selected codec
	ast.Inspect(f.Decl.Body, func(x ast.Node) bool {
		if _, isLit := x.(*ast.FuncLit); isLit {
			return false
		}
		r, ok := x.(*ast.ReturnStmt)
		if !ok || len(r.Results) != 2 {
			return true
		}
		if _, isC := constInt(info, r.Results[1]); isC {
			return true
		}
		c.Check(c18objOf(info, r.Results[1]) == use, rule, f.Key+": returned codec `"+nosp(exprStr(r.Results[1]))+"`", r.Pos(), m,
			"the selected codec", "the codec reported to the batch writer (written into the attributes) is not the variable the compression switch dispatched on")
		return true
	})
	// stores to the selected codec
	type store struct {
		node ast.Node // CFG node searched for
		rhs  ast.Expr // nil: unknown source
		pos  token.Pos
	}
	var stores []store
	undec := false
	ast.Inspect(f.Decl.Body, func(x ast.Node) bool {
		switch s := x.(type) {
		case *ast.AssignStmt:
			for i, l := range s.Lhs {
				if c18objOf(info, l) != use {
					continue
				}
				if _, isID := unparen(l).(*ast.Ident); !isID {
					continue
				}
				if len(s.Rhs) == len(s.Lhs) && (s.Tok == token.ASSIGN || s.Tok == token.DEFINE) {
					stores = append(stores, store{s, s.Rhs[i], s.Pos()})
				} else {
					stores = append(stores, store{s, nil, s.Pos()})
				}
			}
		case *ast.ValueSpec:
			for i, id := range s.Names {
				if info.Defs[id] == use && len(s.Values) > 0 {
					if len(s.Values) == len(s.Names) {
						stores = append(stores, store{s, s.Values[i], s.Pos()})
					} else {
						stores = append(stores, store{s, nil, s.Pos()})
					}
				}
			}
		case *ast.RangeStmt:
			if (s.Key != nil && c18objOf(info, s.Key) == use) || (s.Value != nil && c18objOf(info, s.Value) == use) {
				stores = append(stores, store{s, nil, s.Pos()})
			}
		case *ast.IncDecStmt:
			if c18objOf(info, s.X) == use {
				stores = append(stores, store{s, nil, s.Pos()})
			}
		case *ast.UnaryExpr:
			if s.Op == token.AND && c18objOf(info, s.X) == use {
				undec = true
			}
		case *ast.FuncLit:
			if containsNode(s.Body, true, func(y ast.Node) bool {
				id, ok := y.(*ast.Ident)
				return ok && info.Uses[id] == use && func() bool { _, isAs := pm[id].(*ast.AssignStmt); return isAs }()
			}) {
				undec = true
			}
		}
		return true
	})
	if undec {
		c.Undecided(rule, f.Key+"#selected-codec-aliased", f.Pos(), m, "the selected codec variable has its address taken or is assigned in a function literal")
		return
	}
	nOpt := 0
	for i, st := range stores {
		construct := f.Key + ": selected codec stored from `" + nosp(exprStr(st.rhs)) + "`"
		if st.rhs == nil {
			c.Undecided(rule, f.Key+": selected codec store #"+string(rune('0'+i)), st.pos, m, "store form not understood")
			continue
		}
		if k, isC := constInt(info, st.rhs); isC {
			c.Check(k != zstdVal, rule, construct, st.pos, m, "a constant other than CodecZstd", "CodecZstd is stored unconditionally as the selected codec")
			continue
		}
		nOpt++
		src := c18objOf(info, st.rhs)
		if _, isID := unparen(st.rhs).(*ast.Ident); !isID {
			src = nil
		}
		atom := func(e ast.Expr) (tri, bool) {
			if id, ok := unparen(e).(*ast.Ident); ok && c18objOf(info, id) == dis {
				return triT, true
			}
			if src == nil {
				return triU, false
			}
			be, ok := unparen(e).(*ast.BinaryExpr)
			if !ok || (be.Op != token.EQL && be.Op != token.NEQ) {
				return triU, false
			}
			var other ast.Expr
			if c18objOf(info, be.X) == src {
				other = be.Y
			} else if c18objOf(info, be.Y) == src {
				other = be.X
			} else {
				return triU, false
			}
			k, isC := constInt(info, other)
			if !isC {
				return triU, false
			}
			if (k == zstdVal) == (be.Op == token.EQL) {
				return triT, true
			}
			return triF, true
		}
		tagCase := func(tag, ce ast.Expr) tri {
			if src == nil || c18objOf(info, tag) != src {
				return triU
			}
			if k, isC := constInt(info, ce); isC {
				if k == zstdVal {
					return triT
				}
				return triF
			}
			return triU
		}
		target := st.node
		// the source must not change between the test and the store: it is a range value / single-assignment local
		srcStable := src != nil && len(assignsTo(f, src)) == 0
		path, found := g.FindPath(Loc{B: -1}, SearchOpts{
			GoalNode: func(n ast.Node) bool {
				return containsNode(n, false, func(x ast.Node) bool { return x == target })
			},
			EdgeOK: c18assumeEdges(g, f, atom, tagCase),
		})
		if found && !srcStable && src != nil {
			c.Undecided(rule, construct, st.pos, m, "the stored variable is reassigned inside the function; the guard cannot be related to the stored value")
			continue
		}
		via := ""
		for j := len(path) - 2; j >= 0 && j >= len(path)-3; j-- {
			via = "`" + c16short(nodeStr(path[j])) + "` -> " + via
		}
		c.Check(!found, rule, construct, st.pos, m,
			"not reachable while the stored option is CodecZstd and CompressDisableZstd was passed (the refusal test precedes the store on every path)",
			"the store is reachable while `"+nosp(exprStr(st.rhs))+" == CodecZstd` and CompressDisableZstd was passed ("+via+"store): when zstd is the last (or only) preference the selected codec stays zstd, so for produce versions below 7 the batch is compressed with zstd and codec 4 is written into a v0-v6 request instead of falling back to the next preference / no compression")
	}
	c.Floor(rule+"/option-stores", nOpt, 1)
}

// c18isDeclInit: rhs is the initialiser of obj's declaration.
func c18isDeclInit(f *Func, obj types.Object, rhs ast.Expr) bool {
	info := f.Info()
	found := false
	ast.Inspect(f.Decl.Body, func(x ast.Node) bool {
		switch s := x.(type) {
		case *ast.AssignStmt:
			if s.Tok == token.DEFINE && len(s.Lhs) == len(s.Rhs) {
				for i, l := range s.Lhs {
					if id, ok := l.(*ast.Ident); ok && info.Defs[id] == obj && s.Rhs[i] == rhs {
						found = true
					}
				}
			}
		case *ast.ValueSpec:
			for i, id := range s.Names {
				if info.Defs[id] == obj && i < len(s.Values) && s.Values[i] == rhs {
					found = true
				}
			}
		}
		return true
	})
	return found
}
