package main

import (
	"fmt"
	"go/ast"
	"go/token"
	"go/types"
	"strings"
)

// c21perBrokerRequest: the negotiated version is stored IN the request object
// (handleReq: req.SetVersion(ourMax)) and read back when the request is
// serialised later, after a possible throttle sleep. A request object that is
// handed to more than one broker is therefore written to broker A at the
// version negotiated for broker B. Necessary structural condition: every
// issueShard created in a loop (one per broker) carries a request object that
// is created per iteration.
func c21perBrokerRequest(c *Ctx, m *Module) {
	rule := "request-object-per-broker"
	p := m.byPkg["kgo"]
	if p == nil {
		return
	}
	tobj := p.Types.Scope().Lookup("issueShard")
	if tobj == nil {
		c.Undecided("anchor", "kgo.issueShard", 0, m, "type not found")
		return
	}
	nLoop, nFresh := 0, 0
	seenCons := map[string]int{}
	for _, f := range m.FuncsIn("kgo") {
		if f.Decl == nil || f.Decl.Body == nil {
			continue
		}
		info := f.Info()
		var parents map[ast.Node]ast.Node
		ast.Inspect(f.Decl.Body, func(x ast.Node) bool {
			lit, ok := x.(*ast.CompositeLit)
			if !ok {
				return true
			}
			tv, ok := info.Types[lit]
			if !ok || !types.Identical(tv.Type, tobj.Type()) {
				return true
			}
			var reqV ast.Expr
			hasErr := false
			for _, e := range lit.Elts {
				if kv, ok := e.(*ast.KeyValueExpr); ok {
					switch exprStr(kv.Key) {
					case "req":
						reqV = kv.Value
					case "err":
						hasErr = exprStr(kv.Value) != "nil"
					}
				}
			}
			if reqV == nil || hasErr {
				return true // a shard that carries an error is reported, never sent
			}
			if parents == nil {
				parents = parentMap(f.Decl.Body)
			}
			// innermost loop between the literal and its function (literal)
			var loop ast.Node
			for q := parents[lit]; q != nil; q = parents[q] {
				if _, isLit := q.(*ast.FuncLit); isLit {
					break
				}
				switch q.(type) {
				case *ast.ForStmt, *ast.RangeStmt:
					loop = q
				}
				if loop != nil {
					break
				}
			}
			if loop == nil {
				return true
			}
			nLoop++
			c.Touch(f)
			seenCons[f.Key+nosp(exprStr(reqV))]++
			cons := fmt.Sprintf("%s: issueShard{req: %s}#%d", f.Key, nosp(exprStr(reqV)), seenCons[f.Key+nosp(exprStr(reqV))])
			ok2, why := c21freshPerIter(c, m, f, info, unparen(reqV), loop)
			if ok2 {
				nFresh++
			}
			c.Check(ok2, rule, cons, lit.Pos(), m, "request created per iteration", "the same request object is handed to several brokers ("+why+"): the version is stored in the request by handleReq and read back at serialisation time, so one broker is written the version negotiated for another broker (above its advertised maximum during a rolling upgrade)")
			return true
		})
	}
	c.Floor(rule+"/loop-shards", nLoop, 20)
}

// c21freshPerIter: e denotes an object created inside `loop`'s iteration.
func c21freshPerIter(c *Ctx, m *Module, f *Func, info *types.Info, e ast.Expr, loop ast.Node) (bool, string) {
	within := func(pos token.Pos) bool { return pos >= loop.Pos() && pos < loop.End() }
	switch v := e.(type) {
	case *ast.Ident:
		o := info.Uses[v]
		if o == nil {
			return false, "unresolved " + v.Name
		}
		if within(o.Pos()) {
			// declared by the loop (range key/value) or inside its body
			if rs, ok := loop.(*ast.RangeStmt); ok {
				if id, ok := rs.Value.(*ast.Ident); ok && info.Defs[id] == o {
					// range value: distinct per element unless the ranged container holds one object; accept maps/slices of per-broker requests
					return true, ""
				}
			}
			return true, ""
		}
		// declared outside: every assignment to it inside the loop before use would make it per-iteration
		assigned := false
		ast.Inspect(loop, func(x ast.Node) bool {
			if as, ok := x.(*ast.AssignStmt); ok {
				for _, l := range as.Lhs {
					if id, ok := l.(*ast.Ident); ok && info.Uses[id] == o {
						assigned = true
					}
				}
			}
			return true
		})
		if assigned {
			return true, ""
		}
		return false, v.Name + " is declared outside the per-broker loop and not re-created in it"
	case *ast.UnaryExpr:
		if v.Op == token.AND {
			if _, ok := unparen(v.X).(*ast.CompositeLit); ok {
				return true, ""
			}
			if id, ok := unparen(v.X).(*ast.Ident); ok {
				if o := info.Uses[id]; o != nil && within(o.Pos()) {
					return true, ""
				}
			}
		}
		return false, "address of a value that outlives the iteration"
	case *ast.CallExpr:
		// a call of a local closure or of a function parameter: the closure must build a new request
		if id, ok := unparen(v.Fun).(*ast.Ident); ok {
			o := info.Uses[id]
			if lit := c21closureOf(f, info, o); lit != nil {
				return c21closureFresh(info, lit)
			}
			if pv, ok := o.(*types.Var); ok && c21isParam(f, pv) {
				// check every caller's argument
				idx := c21paramIndex(f, pv)
				okAll, why := true, ""
				n := 0
				for _, site := range CallSites(m.FuncsIn("kgo"), f.Obj) {
					call, isCall := site.Node.(*ast.CallExpr)
					if !isCall || idx >= len(call.Args) {
						continue
					}
					n++
					arg, isLit := unparen(call.Args[idx]).(*ast.FuncLit)
					if !isLit {
						okAll, why = false, "argument at "+site.Fn.Key+" is not a function literal"
						continue
					}
					if ok, w := c21closureFresh(site.Fn.Info(), arg); !ok {
						okAll, why = false, "closure passed by "+site.Fn.Key+": "+w
					}
					c.Touch(site.Fn)
				}
				if n == 0 {
					return false, "no caller found for " + f.Key
				}
				return okAll, why
			}
		}
		if sel, ok := unparen(v.Fun).(*ast.SelectorExpr); ok && strings.HasPrefix(sel.Sel.Name, "NewPtr") {
			return true, ""
		}
		return false, "call " + nosp(exprStr(v)) + " is not a recognised constructor"
	}
	return false, nosp(exprStr(e)) + " is loop-invariant"
}

func c21isParam(f *Func, v *types.Var) bool { return c21paramIndex(f, v) >= 0 }

func c21paramIndex(f *Func, v *types.Var) int {
	i := 0
	for _, fl := range f.Decl.Type.Params.List {
		for _, nm := range fl.Names {
			if f.Info().Defs[nm] == v {
				return i
			}
			i++
		}
	}
	return -1
}

// c21closureOf: the function literal a local variable is bound to (single definition).
func c21closureOf(f *Func, info *types.Info, o types.Object) *ast.FuncLit {
	if o == nil {
		return nil
	}
	var lit *ast.FuncLit
	n := 0
	ast.Inspect(f.Decl.Body, func(x ast.Node) bool {
		as, ok := x.(*ast.AssignStmt)
		if !ok || len(as.Lhs) != len(as.Rhs) {
			return true
		}
		for i, l := range as.Lhs {
			id, ok := l.(*ast.Ident)
			if !ok {
				continue
			}
			if info.Defs[id] == o || info.Uses[id] == o {
				n++
				lit, _ = unparen(as.Rhs[i]).(*ast.FuncLit)
			}
		}
		return true
	})
	if n != 1 {
		return nil
	}
	return lit
}

// c21closureFresh: every value the closure returns is an object created inside it.
func c21closureFresh(info *types.Info, lit *ast.FuncLit) (bool, string) {
	inLit := func(pos token.Pos) bool { return pos >= lit.Body.Pos() && pos < lit.Body.End() }
	ok, why := true, ""
	n := 0
	ast.Inspect(lit.Body, func(x ast.Node) bool {
		if l, isLit := x.(*ast.FuncLit); isLit && l != lit {
			return false
		}
		r, isR := x.(*ast.ReturnStmt)
		if !isR || len(r.Results) != 1 {
			return true
		}
		n++
		e := unparen(r.Results[0])
		switch v := e.(type) {
		case *ast.UnaryExpr:
			if v.Op == token.AND {
				if _, isC := unparen(v.X).(*ast.CompositeLit); isC {
					return true
				}
				if id, isId := unparen(v.X).(*ast.Ident); isId {
					if o := info.Uses[id]; o != nil && inLit(o.Pos()) {
						return true
					}
				}
			}
		case *ast.Ident:
			if o := info.Uses[v]; o != nil && inLit(o.Pos()) {
				return true
			}
		case *ast.CallExpr:
			if sel, isSel := unparen(v.Fun).(*ast.SelectorExpr); isSel && strings.HasPrefix(sel.Sel.Name, "NewPtr") {
				return true
			}
		}
		ok, why = false, "returns `"+nosp(exprStr(e))+"`, a value captured from outside the closure"
		return true
	})
	if n == 0 {
		return false, "closure has no single-value return"
	}
	return ok, why
}

// c21pinContext: internal version pins, and every other per-request marker,
// travel to broker.handleReq as VALUES of the request's context
// (pr.ctx.Value(ctxPinReq)). Necessary structural condition: wherever a
// function forwards its own request parameter together with a context, that
// context is value-derived from the function's own context parameter
// (the parameter itself or context.With*(…) of it), never a context built from
// cl.ctx / context.Background().
func c21pinContext(c *Ctx, m *Module) {
	rule := "pin-context-reaches-negotiation"
	nSites := 0
	for _, f := range m.FuncsIn("kgo") {
		if f.Decl == nil || f.Decl.Body == nil || f.Decl.Type.Params == nil {
			continue
		}
		info := f.Info()
		var ctxP, reqP types.Object
		for _, fl := range f.Decl.Type.Params.List {
			for _, nm := range fl.Names {
				o := info.Defs[nm]
				if o == nil {
					continue
				}
				switch o.Type().String() {
				case "context.Context":
					if ctxP == nil {
						ctxP = o
					}
				case "github.com/twmb/franz-go/pkg/kmsg.Request":
					if reqP == nil {
						reqP = o
					}
				}
			}
		}
		if ctxP == nil || reqP == nil {
			continue
		}
		// greatest fixpoint of context variables whose every assignment is value-derived from the set
		assigns := map[types.Object][]ast.Expr{}
		cand := map[types.Object]bool{ctxP: true}
		ast.Inspect(f.Decl.Body, func(x ast.Node) bool {
			switch s := x.(type) {
			case *ast.AssignStmt:
				for i, l := range s.Lhs {
					id, ok := l.(*ast.Ident)
					if !ok {
						continue
					}
					o := info.Defs[id]
					if o == nil {
						o = info.Uses[id]
					}
					if o == nil || o.Type().String() != "context.Context" {
						continue
					}
					cand[o] = true
					var rhs ast.Expr
					if len(s.Rhs) == len(s.Lhs) {
						rhs = s.Rhs[i]
					} else if len(s.Rhs) == 1 && i == 0 {
						rhs = s.Rhs[0]
					}
					assigns[o] = append(assigns[o], rhs)
				}
			case *ast.ValueSpec:
				for i, id := range s.Names {
					o := info.Defs[id]
					if o == nil || o.Type().String() != "context.Context" {
						continue
					}
					cand[o] = true
					var rhs ast.Expr
					if len(s.Values) == len(s.Names) {
						rhs = s.Values[i]
					} else if len(s.Values) == 1 && i == 0 {
						rhs = s.Values[0]
					}
					assigns[o] = append(assigns[o], rhs)
				}
			}
			return true
		})
		var derived func(e ast.Expr) bool
		derived = func(e ast.Expr) bool {
			if e == nil {
				return false
			}
			e = unparen(e)
			switch v := e.(type) {
			case *ast.Ident:
				return cand[info.Uses[v]]
			case *ast.CallExpr:
				if sel, ok := unparen(v.Fun).(*ast.SelectorExpr); ok && len(v.Args) >= 1 {
					if fn, ok := info.Uses[sel.Sel].(*types.Func); ok && fn.Pkg() != nil && fn.Pkg().Path() == "context" && strings.HasPrefix(fn.Name(), "With") {
						return derived(v.Args[0])
					}
				}
			}
			return false
		}
		for changed := true; changed; {
			changed = false
			for o := range cand {
				if !cand[o] {
					continue
				}
				for _, rhs := range assigns[o] {
					if !derived(rhs) {
						cand[o] = false
						changed = true
						break
					}
				}
			}
		}
		// the request: the parameter (possibly re-bound to an amended copy) and
		// the variable a type switch on it binds
		reqObjs := map[types.Object]bool{reqP: true}
		ast.Inspect(f.Decl.Body, func(x ast.Node) bool {
			ts, ok := x.(*ast.TypeSwitchStmt)
			if !ok {
				return true
			}
			as, ok := ts.Assign.(*ast.AssignStmt)
			if !ok || len(as.Rhs) != 1 {
				return true
			}
			ta, ok := unparen(as.Rhs[0]).(*ast.TypeAssertExpr)
			if !ok {
				return true
			}
			if id, ok := unparen(ta.X).(*ast.Ident); !ok || info.Uses[id] != reqP {
				return true
			}
			for _, cc := range ts.Body.List {
				if o := info.Implicits[cc]; o != nil {
					reqObjs[o] = true
				}
			}
			return true
		})
		isReq := func(e ast.Expr) bool {
			id, ok := unparen(e).(*ast.Ident)
			return ok && reqObjs[info.Uses[id]]
		}
		ast.Inspect(f.Decl.Body, func(x ast.Node) bool {
			var elems []ast.Expr
			what := ""
			switch v := x.(type) {
			case *ast.CallExpr:
				if tv, ok := info.Types[v.Fun]; ok && tv.IsType() {
					return true
				}
				elems, what = v.Args, nosp(exprStr(v.Fun))
			case *ast.CompositeLit:
				for _, e := range v.Elts {
					if kv, ok := e.(*ast.KeyValueExpr); ok {
						elems = append(elems, kv.Value)
					} else {
						elems = append(elems, e)
					}
				}
				what = nosp(exprStr(v.Type)) + "{}"
			default:
				return true
			}
			hasReq := false
			var ctxArg ast.Expr
			for _, a := range elems {
				if isReq(a) {
					hasReq = true
				}
				if tv, ok := info.Types[a]; ok && tv.Type != nil && tv.Type.String() == "context.Context" && ctxArg == nil {
					ctxArg = a
				}
			}
			if !hasReq || ctxArg == nil {
				return true
			}
			nSites++
			c.Touch(f)
			c.Check(derived(ctxArg), rule, f.Key+": "+what+"("+nosp(exprStr(ctxArg))+", "+reqP.Name()+")", x.Pos(), m, "context value-derived from the caller's", "the request is forwarded with a context ("+nosp(exprStr(ctxArg))+") that is not derived from the caller's context by context.With*: context values set by internal callers (the version pin ctxPinReq read in handleReq, the no-retry marker) are dropped, so a pinned request (EndTxn/TxnOffsetCommit max 4 without KIP-890p2, OffsetFetch/OffsetCommit max 9) is written above its pin")
			return true
		})
	}
	c.Floor(rule+"/forwarding-sites", nSites, 10)
}

// c21apiVersionsIssued: a connection asks the broker for its version ranges
// whenever the user's MaxVersions permits ApiVersions at ANY version,
// including a cap of exactly v0 (kversion.V0_10_0..V0_10_2). Skipping the
// request stores an empty table, after which neither broker bound takes part
// in the negotiation.
func c21apiVersionsIssued(c *Ctx, m *Module) {
	rule := "apiversions-requested-unless-forbidden"
	f := c.NeedFunc(m, "kgo.brokerCxn.init")
	if f == nil {
		return
	}
	info := f.Info()
	g := f.Graph()
	calls := callsNamed(f.Decl.Body, info, "requestAPIVersions", true)
	c.Check(len(calls) == 1, rule, f.Key+"#call", f.Pos(), m, "", fmt.Sprintf("expected one requestAPIVersions call in connection init, found %d", len(calls)))
	if len(calls) != 1 {
		return
	}
	l, ok := g.LocOf(calls[0])
	if !ok {
		l, ok = g.LocOf(enclosingStmt(f.Decl.Body, calls[0]))
	}
	if !ok {
		c.Undecided(rule, f.Key+": requestAPIVersions", calls[0].Pos(), m, "call not located in the CFG")
		return
	}
	// locals holding the looked-up user maximum for key 18
	lookups := map[types.Object]bool{}
	ast.Inspect(f.Decl.Body, func(x ast.Node) bool {
		as, ok := x.(*ast.AssignStmt)
		if !ok || len(as.Rhs) != 1 {
			return true
		}
		call, ok := unparen(as.Rhs[0]).(*ast.CallExpr)
		if !ok || !strings.HasSuffix(calleeName(info, call), "LookupMaxKeyVersion") {
			return true
		}
		if id, ok := as.Lhs[0].(*ast.Ident); ok {
			o := info.Defs[id]
			if o == nil {
				o = info.Uses[id]
			}
			if o != nil {
				lookups[o] = true
			}
		}
		return true
	})
	var bad, unk []string
	relevant := 0
	for _, ft := range g.FactsAt(l) {
		s := nosp(exprStr(ft.Cond))
		mentions := strings.Contains(s, "maxVersions")
		ast.Inspect(ft.Cond, func(x ast.Node) bool {
			if id, ok := x.(*ast.Ident); ok && lookups[info.Uses[id]] {
				mentions = true
			}
			return true
		})
		if !mentions {
			continue
		}
		relevant++
		switch {
		case ft.Val && strings.Contains(s, ".maxVersions==nil||") && strings.HasSuffix(s, ".maxVersions.HasKey(18)"):
		case !ft.Val && strings.Contains(s, ".maxVersions!=nil&&!") && strings.HasSuffix(s, ".maxVersions.HasKey(18)"):
		default:
			// a comparison of the looked-up maximum
			if be, ok := unparen(ft.Cond).(*ast.BinaryExpr); ok {
				if v, isC := constInt(info, be.Y); isC {
					op := be.Op
					val := ft.Val
					// normalise to "holds when": x OP v
					holdsAt0 := false
					switch op {
					case token.GTR:
						holdsAt0 = 0 > v
					case token.GEQ:
						holdsAt0 = 0 >= v
					case token.NEQ:
						holdsAt0 = 0 != v
					case token.EQL:
						holdsAt0 = 0 == v
					case token.LSS:
						holdsAt0 = 0 < v
					case token.LEQ:
						holdsAt0 = 0 <= v
					}
					if !val {
						holdsAt0 = !holdsAt0
					}
					if !holdsAt0 {
						bad = append(bad, s)
					}
					continue
				}
			}
			unk = append(unk, s)
		}
	}
	switch {
	case len(bad) > 0:
		c.Fail(rule, f.Key+": requestAPIVersions", calls[0].Pos(), m, "ApiVersions is requested only under `"+strings.Join(bad, ", ")+"`, which is false for a user maximum of exactly v0 for key 18 (kversion.V0_10_0..V0_10_2): no ApiVersions request is sent, an empty version table is stored and the broker's advertised maximum and minimum drop out of every later negotiation")
	case len(unk) > 0:
		c.Undecided(rule, f.Key+": requestAPIVersions", calls[0].Pos(), m, "unrecognised guard on the ApiVersions request: "+strings.Join(unk, ", "))
	default:
		c.Check(relevant >= 1, rule, f.Key+": requestAPIVersions", calls[0].Pos(), m, "requested whenever key 18 is permitted at any version", "the ApiVersions request is not conditioned on the user's MaxVersions at all (a client pinned below 0.10.0 must not send it)")
	}
}

// c21pinPerPiece: a context that carries a version pin belongs to one piece of
// a split. The pieces of one split can carry DIFFERENT pins
// (addPartitionsToTxnSharder: max 3 next to min 4), so the context built for
// one piece must not be reused for another: context.WithValue(_, ctxPinReq, v)
// inside a loop is stored in a variable of that iteration and v is the pin of
// that iteration's own piece.
func c21pinPerPiece(c *Ctx, m *Module) {
	rule := "pin-context-per-piece"
	pinKey := m.byPkg["kgo"].Types.Scope().Lookup("ctxPinReq")
	if pinKey == nil {
		c.Undecided("anchor", "kgo.ctxPinReq", 0, m, "not found")
		return
	}
	n := 0
	perFn := map[string]int{}
	for _, f := range m.FuncsIn("kgo") {
		if f.Decl == nil || f.Decl.Body == nil {
			continue
		}
		info := f.Info()
		var parents map[ast.Node]ast.Node
		ast.Inspect(f.Decl.Body, func(x ast.Node) bool {
			call, ok := x.(*ast.CallExpr)
			if !ok || len(call.Args) != 3 || calleeName(info, call) != "context.WithValue" {
				return true
			}
			id, ok := unparen(call.Args[1]).(*ast.Ident)
			if !ok || info.Uses[id] != pinKey {
				return true
			}
			n++
			perFn[f.Key]++
			c.Touch(f)
			if parents == nil {
				parents = parentMap(f.Decl.Body)
			}
			var loop ast.Node
			for q := parents[call]; q != nil; q = parents[q] {
				switch q.(type) {
				case *ast.ForStmt, *ast.RangeStmt:
					loop = q
				}
				if loop != nil {
					break
				}
				if _, isLit := q.(*ast.FuncLit); isLit {
					break
				}
			}
			cons := fmt.Sprintf("%s: context.WithValue(ctxPinReq)#%d", f.Key, perFn[f.Key])
			if loop == nil {
				c.OK(rule, cons, call.Pos(), m, "not in a loop over pieces")
				return true
			}
			within := func(o types.Object) bool { return o != nil && o.Pos() >= loop.Pos() && o.Pos() < loop.End() }
			why := ""
			// destination
			if as, ok := parents[call].(*ast.AssignStmt); ok && len(as.Lhs) == 1 {
				if lid, ok := as.Lhs[0].(*ast.Ident); ok {
					o := info.Defs[lid]
					if o == nil {
						o = info.Uses[lid]
					}
					if !within(o) {
						why = "the pinned context is stored in `" + lid.Name + "`, which outlives the iteration, and is reused for the other pieces of the split"
					}
				}
			}
			// pin value: a field of this iteration's own piece
			if why == "" {
				root := unparen(call.Args[2])
				for {
					if se, ok := root.(*ast.SelectorExpr); ok {
						root = unparen(se.X)
						continue
					}
					if ie, ok := root.(*ast.IndexExpr); ok {
						root = unparen(ie.X)
						continue
					}
					break
				}
				if rid, ok := root.(*ast.Ident); ok {
					if o := info.Uses[rid]; o != nil && !within(o) {
						if _, isVar := o.(*types.Var); isVar && o.Parent() != o.Pkg().Scope() {
							why = "the pin comes from `" + rid.Name + "`, which is not this iteration's piece"
						}
					}
				}
			}
			c.Check(why == "", rule, cons, call.Pos(), m, "built per piece from the piece's own pin", why+": pieces of one split can carry different pins (AddPartitionsToTxn: max 3 next to min 4), so a piece is negotiated under another piece's pin and written outside its own bound")
			return true
		})
	}
	c.Floor(rule+"/sites", n, 5)
}
