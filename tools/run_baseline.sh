#!/bin/bash
# usage: run_baseline.sh <worktree>
# Runs exactly the pinned tests (the ones listed as stable in the baseline) in the worktree
# and reports every pinned test that does not pass.  Exit 0 = all pinned tests pass.
WT=$1
python3 - "$WT" <<'PY'
import json,sys,subprocess,os,collections
wt=sys.argv[1]
base=json.load(open('/root/.vp/BASELINE.json'))['stable_pass']
bypkg=collections.defaultdict(set)
for t in base:
    p,n=t.split('::'); bypkg[p].add(n.split('/')[0])
bad=[];total=0
env=dict(os.environ,GOFLAGS='-mod=mod')
for p,names in sorted(bypkg.items()):
    rel=p.replace('github.com/twmb/franz-go','').lstrip('/')
    d=os.path.join(wt,rel)
    rx='^('+'|'.join(sorted(names))+')$'
    r=subprocess.run(['go','test','-json','-vet=off','-count=1','-timeout','25m','-run',rx,'.'],cwd=d,env=env,capture_output=True,text=True)
    res={}
    for line in r.stdout.splitlines():
        try:e=json.loads(line)
        except:continue
        if e.get('Test') and e.get('Action') in('pass','fail','skip'):res[e['Test']]=e['Action']
    for t in base:
        pp,n=t.split('::')
        if pp!=p:continue
        total+=1
        if res.get(n)!='pass':
            bad.append((t,res.get(n)))
    if r.returncode!=0 and not any(b[0].startswith(p+'::') for b in bad):
        bad.append((p+' (package failed: build error or panic)',r.stderr[-2000:]+r.stdout[-1500:]))
print(f"pinned tests run: {total}; not passing: {len(bad)}")
for t,a in bad: print("NOT-PASSING",t,a)
sys.exit(1 if bad else 0)
PY
