#!/bin/bash
# usage: tools/mutrun.sh <patch.diff> <Cnn> [tier]
# Applies the patch to a scratch copy of /repo's working tree (outside /repo
# and /verif), runs the check against the copy, removes the copy.
# Exit 0 = check reported a violation (mutant caught); 3 = patch does not
# apply; 4 = mutant NOT caught.
set -u
PATCH=$(readlink -f "$1"); PROP=$2; TIER=${3:-quick}
VERIF=$(cd "$(dirname "$0")/.." && pwd)
# A fixed scratch path keeps the Go build cache small (cache entries are keyed by
# path): use slot 0 when free (flock), a per-process slot otherwise.
mkdir -p /tmp/fgmut
if [ -z "${MUTSLOT:-}" ]; then
  exec 9>/tmp/fgmut/w0.lock
  if flock -n 9; then SLOT=0; else SLOT=$$; fi
else
  SLOT=$MUTSLOT
fi
W=/tmp/fgmut/w$SLOT
rm -rf $W; mkdir -p $W
rsync -a --exclude .git /repo/ $W/repo/
if ! (cd $W/repo && patch -p1 -s --no-backup-if-mismatch < "$PATCH" >/dev/null 2>&1); then
  rm -rf $W; echo "SKIP (patch does not apply): $PATCH"; exit 3
fi
mkdir -p $W/ev
OUT=$($VERIF/run.sh $PROP $TIER --repo $W/repo --evdir $W/ev 2>&1); RC=$?
rm -rf $W
if [ $RC -eq 1 ] && echo "$OUT" | grep -q "^VIOLATION property=$PROP"; then
  echo "CAUGHT $PROP $(basename $(dirname $PATCH))/$(basename $PATCH): $(echo "$OUT" | grep -m1 '^VIOLATED\|^UNDECIDED' | cut -c1-220)"
  exit 0
fi
echo "MISSED $PROP $PATCH (exit $RC)"; echo "$OUT" | tail -3
exit 4
