import json,sys
pid=sys.argv[1]
root=sys.argv[2] if len(sys.argv)>2 else '/tmp/seed'
avoid=sys.argv[3] if len(sys.argv)>3 else ''
for l in open('/verif/properties.jsonl'):
    p=json.loads(l)
    if p['id']==pid: break
print(f"""You are helping test a verification effort for the Go library twmb/franz-go (a Kafka client). Your job: write a realistic BUG. You have your own scratch git worktree of the library at {root}/wt-{pid} (work only there and in {root}/out-{pid}; never touch /repo or /verif, and do not read anything under /verif except running the script /verif/tools/run_baseline.sh).

The property the bug must break:

  Title: {p['title']}
  Statement: {p['statement']}
  Scope: {p['quantifier']['text']}

Task: produce TWO different, independent source changes (call them A and B) to the library under {root}/wt-{pid} (non-test .go files only) such that each, on its own:
  1. still compiles (`go build ./...` and `go vet`-free is not required, just compile, in every module you touch);
  2. still passes the project's pinned test-suite: run `/verif/tools/run_baseline.sh {root}/wt-{pid}` (about 30 s; exit 0 and "not passing: 0" means OK). Do not edit or add *_test.go files in the patch;
  3. genuinely breaks the property above in the real code (the behaviour is wrong, not merely different-looking);
  4. needs something SPECIFIC to manifest: a particular interleaving, a fault/crash at a particular point, a multi-step sequence of operations, an unusual input, a particular configuration, or two cooperating sites that each look fine alone. Do NOT make changes that ordinary use would expose at once (e.g. every produce failing). Think of the kind of subtle regression a maintainer could plausibly introduce in a refactor or "optimisation" and that code review could miss. Small diffs (1-15 lines) are best. A and B should be in different functions / break different aspects of the property.
  5. comes with a demonstration: a Go test or small Go program that FAILS (or prints a clear failure / panics) with the change and PASSES without it. It may drive the code however it likes (unit-level calls into unexported functions from a _test.go file placed in the package directory, or an end-to-end program against the in-process fake cluster pkg/kfake, or a hand-rolled fake broker). Keep the demonstration deterministic if at all possible (if it needs a race, make it win reliably with retries/hooks and say how often it fails).

Environment facts (no network; everything needed is on disk):
  - The repository is multi-module: the root module (pkg/kgo, pkg/kbin, pkg/kerr, pkg/kversion), pkg/kmsg, pkg/kfake, pkg/kadm, pkg/sr, plugin/kotel each have their own go.mod. In {root}/wt-{pid}, plain `go build ./... ` / `go test` work inside each module directory (Go auto-selects a cached 1.25 toolchain); always set GOFLAGS=-mod=mod GOPROXY=off (do NOT set GOSUMDB=off inside the worktree: it blocks the automatic toolchain switch).
  - IMPORTANT: pkg/kfake, pkg/kadm and plugin/kotel depend on the *published* github.com/twmb/franz-go v1.21.1 from the module cache, NOT on the worktree's pkg/kgo. So a test inside pkg/kfake does not exercise your modified pkg/kgo. To drive the modified client against kfake, create a small separate module (e.g. {root}/out-{pid}/demoA/) whose go.mod has `replace github.com/twmb/franz-go => {root}/wt-{pid}`, `replace github.com/twmb/franz-go/pkg/kfake => {root}/wt-{pid}/pkg/kfake` and `replace github.com/twmb/franz-go/pkg/kmsg => {root}/wt-{pid}/pkg/kmsg` as needed, copy {root}/wt-{pid}/go.sum and pkg/kfake/go.sum contents into its go.sum, and build with GOFLAGS=-mod=mod GOPROXY=off. Alternatively put an internal _test.go file into the package directory just for the demonstration (it is not part of the patch).
  - Many existing tests under pkg/kgo need a real Kafka broker and are NOT part of the pinned suite; ignore their failures. Only /verif/tools/run_baseline.sh decides.

Deliverables, written under {root}/out-{pid}/ :
  - A/patch.diff and B/patch.diff : `git -C {root}/wt-{pid} diff` of ONLY the library change (non-test files), each relative to the clean checkout (reset the worktree with `git -C {root}/wt-{pid} checkout -- . && git -C {root}/wt-{pid} clean -fdq` between A and B).
  - A/demo/ and B/demo/ : the demonstration files plus a `run.sh` that takes the worktree path as $1, runs the demonstration against whatever source is currently in that worktree, and exits non-zero when the bug manifests (zero on the clean tree). If the demonstration is a _test.go to be dropped into a package dir, run.sh must copy it in, run it, and remove it again.
  - A/notes.md and B/notes.md : what was changed, why it breaks the property, what specific condition is needed to manifest, and the exact commands you ran with their observed results on the changed tree and on the clean tree (baseline script result included).
{('Earlier rounds already produced changes in these functions; choose DIFFERENT functions and a different aspect of the property: ' + avoid + '. ') if avoid else ''}Leave the worktree clean (no modifications, no stray files) when you finish. Be honest: if you could only get one good change, deliver one and say so. Finish with a short summary of A and B.""")
