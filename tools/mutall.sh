#!/bin/bash
# usage: tools/mutall.sh <Cnn> [tier]  -- run every mutant and seed of a property; exit 1 if any is missed
cd "$(dirname "$0")/.."
P=$1; T=${2:-quick}; rc=0
for f in mutants/$P/*.patch seeded/$P-*/patch.diff; do
  [ -f "$f" ] || continue
  tools/mutrun.sh $f $P $T | head -1 | cut -c1-250 || rc=1
  [ ${PIPESTATUS[0]} -eq 0 ] || rc=1
done
exit $rc
