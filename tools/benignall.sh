#!/bin/bash
# usage: tools/benignall.sh <pad|nocomment|rename|incdec>   -- all quick checks must stay silent on a behaviour-preserving rewrite of /repo
cd "$(dirname "$0")/.."
export PATH=/opt/veriftools/go1.26.8/bin:$PATH GOTOOLCHAIN=local GOFLAGS=-mod=mod GOPROXY=off GOSUMDB=off CGO_ENABLED=0; unset GOWORK
MODE=${1:-pad}; W=/tmp/fgmut/benign$$; rm -rf $W; mkdir -p $W/ev
rsync -a --exclude .git /repo/ $W/repo/
(cd tools/benign && go run main.go $MODE $W/repo/pkg $W/repo/plugin) || exit 2
(cd $W/repo && for m in . pkg/kmsg pkg/kfake pkg/kadm pkg/sr plugin/kotel; do (cd $m && env -u GOSUMDB -u GOTOOLCHAIN go build ./... ) || echo "BUILD-FAIL $m"; done)
./run.sh all quick --repo $W/repo --evdir $W/ev | grep -v " 0 violations/undecided" | cut -c1-300
rm -rf $W
