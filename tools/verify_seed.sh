#!/bin/bash
# usage: [SEEDROOT=/tmp/seed2] tools/verify_seed.sh <Cnn> <A|B> [store-as letter]   (reads $SEEDROOT/out-<Cnn>/<A|B>)
# Confirms in a fresh scratch worktree: demo passes on clean tree, fails with the
# patch, pinned baseline passes with the patch.  On success stores the seed
# under /verif/seeded/<Cnn>-<A|B>/.
set -u
P=$1; V=$2; SEEDROOT=${SEEDROOT:-/tmp/seed}; AS=${3:-$V}; SRC=$SEEDROOT/out-$P/$V
ID=$P-$AS; WT=/tmp/seedv/wt-$ID
[ -f $SRC/patch.diff ] || { echo "$ID: no patch"; exit 2; }
mkdir -p /tmp/seedv; git -C /repo worktree remove --force $WT 2>/dev/null; rm -rf $WT
git -C /repo worktree add -q --detach $WT HEAD || exit 2
LOG=/tmp/seedv/$ID.log; : > $LOG
run_demo() { (cd $SRC/demo && timeout 900 bash ./run.sh $WT) >> $LOG 2>&1; echo $?; }
echo "== clean demo" >> $LOG; RC_CLEAN=$(run_demo)
git -C $WT checkout -q -- . ; git -C $WT clean -fdq
if ! git -C $WT apply $SRC/patch.diff 2>>$LOG; then echo "$ID: patch does not apply"; git -C /repo worktree remove --force $WT; exit 2; fi
echo "== patched demo" >> $LOG; RC_PATCHED=$(run_demo)
git -C $WT status --short | grep -v '^ M' >> $LOG
echo "== baseline" >> $LOG; /verif/tools/run_baseline.sh $WT >> $LOG 2>&1; RC_BASE=$?
if [ $RC_BASE -ne 0 ]; then echo "== baseline retry" >> $LOG; /verif/tools/run_baseline.sh $WT >> $LOG 2>&1; RC_BASE=$?; fi
git -C /repo worktree remove --force $WT; rm -rf $WT
echo "$ID: demo clean rc=$RC_CLEAN patched rc=$RC_PATCHED baseline rc=$RC_BASE"
if [ "$RC_CLEAN" = 0 ] && [ "$RC_PATCHED" != 0 ] && [ $RC_BASE = 0 ]; then
  D=/verif/seeded/$ID; rm -rf $D; mkdir -p $D
  cp $SRC/patch.diff $D/patch.diff; cp -r $SRC/demo $D/demo; cp $SRC/notes.md $D/notes.md 2>/dev/null
  python3 - "$P" "$AS" "$RC_CLEAN" "$RC_PATCHED" "$RC_BASE" > $D/meta.json <<'PY'
import json,sys
p,v,c,pa,b=sys.argv[1:]
print(json.dumps({"id":f"{p}-{v}","property":p,"source":"independent sub-agent given only the property text and a scratch worktree","confirmed":{"demo_on_clean_tree_exit":int(c),"demo_with_patch_exit":int(pa),"pinned_baseline_with_patch_exit":int(b),"how":"tools/verify_seed.sh in a fresh scratch git worktree of /repo (removed afterwards)"},"needs_to_manifest":"see notes.md","caught_by":"TBD"},indent=1))
PY
  echo "$ID: KEPT"
else
  echo "$ID: REJECTED (see $LOG)"
fi
