#!/usr/bin/env python3
"""Run every kept seeded change against its property's check and record the
outcome in seeded/<id>/meta.json (caught_by). usage: tools/seedrun.py [Cnn | Cnn-X ...]"""
import json, os, re, subprocess, sys, glob
V = os.path.dirname(os.path.dirname(os.path.abspath(__file__)))
want = set(sys.argv[1:])
checks = {c["property_id"] for c in json.load(open(os.path.join(V, "MANIFEST.json")))["checks"]}
for d in sorted(glob.glob(os.path.join(V, "seeded", "C*-*"))):
    sid = os.path.basename(d); prop = sid.split("-")[0]
    if want and prop not in want and sid not in want: continue
    mp = os.path.join(d, "meta.json"); meta = json.load(open(mp))
    if prop not in checks:
        meta["caught_by"] = "no check registered for " + prop
    else:
        patch = os.path.join(d, "patch.diff")
        alt = os.path.join(d, "patch.rebased.diff")
        use = alt if os.path.exists(alt) else patch
        r = subprocess.run([os.path.join(V, "tools", "mutrun.sh"), use, prop], capture_output=True, text=True)
        out = r.stdout.strip().splitlines()
        line = out[0] if out else ""
        if line.startswith("CAUGHT"):
            m = re.search(r"(VIOLATED|UNDECIDED) \S+ rule=(\S+) construct=(.*?) at ", line)
            meta["caught_by"] = {"check": "./run.sh %s quick" % prop, "verdict": m.group(1) if m else "?", "rule": m.group(2) if m else "?", "construct": (m.group(3) if m else line)[:200], "patch": os.path.basename(use)}
        elif line.startswith("SKIP"):
            meta["caught_by"] = "patch no longer applies to /repo (a fix: commit changed the context)"
        else:
            meta["caught_by"] = "MISSED"
    json.dump(meta, open(mp, "w"), indent=1)
    cb = meta["caught_by"]
    print(sid, cb if isinstance(cb, str) else cb["verdict"] + " " + cb["rule"])
